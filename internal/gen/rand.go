// Package gen holds the seeded, deterministic generators used by every check.
package gen

// Rand is a splitmix64 generator.  Every choice made by a check derives from
// VERIF_SEED through this type, so a case list is a pure function of
// (seed, property, generator, index).
type Rand struct{ s uint64 }

func New(seed uint64) *Rand { return &Rand{s: seed} }

func (r *Rand) U64() uint64 {
	r.s += 0x9E3779B97F4A7C15
	z := r.s
	z = (z ^ (z >> 30)) * 0xBF58476D1CE4E5B9
	z = (z ^ (z >> 27)) * 0x94D049BB133111EB
	return z ^ (z >> 31)
}

// Intn returns a value in [0,n).  n<=0 returns 0.
func (r *Rand) Intn(n int) int {
	if n <= 0 {
		return 0
	}
	return int(r.U64() % uint64(n))
}

// Range returns a value in [lo,hi].
func (r *Rand) Range(lo, hi int) int {
	if hi <= lo {
		return lo
	}
	return lo + r.Intn(hi-lo+1)
}

func (r *Rand) Bool() bool { return r.U64()&1 == 1 }

// Chance returns true with probability num/den.
func (r *Rand) Chance(num, den int) bool { return r.Intn(den) < num }

func (r *Rand) Float() float64 { return float64(r.U64()>>11) / float64(1<<53) }

// Pick returns one of the values.
func Pick[T any](r *Rand, vals ...T) T { return vals[r.Intn(len(vals))] }

// Mix hashes several values into one sub-seed.
func Mix(vals ...uint64) uint64 {
	h := uint64(0x243F6A8885A308D3)
	for _, v := range vals {
		h ^= v + 0x9E3779B97F4A7C15 + (h << 6) + (h >> 2)
		h *= 0xFF51AFD7ED558CCD
		h ^= h >> 33
	}
	return h
}

// HashStr is FNV-1a 64.
func HashStr(s string) uint64 {
	h := uint64(0xcbf29ce484222325)
	for i := 0; i < len(s); i++ {
		h ^= uint64(s[i])
		h *= 0x100000001b3
	}
	return h
}

func HashBytes(b []byte) uint64 {
	h := uint64(0xcbf29ce484222325)
	for i := 0; i < len(b); i++ {
		h ^= uint64(b[i])
		h *= 0x100000001b3
	}
	return h
}

// Sub derives the generator of case idx of generator g of property p.
func Sub(seed uint64, prop, g string, idx int) *Rand {
	return New(Mix(seed, HashStr(prop), HashStr(g), uint64(idx)))
}
