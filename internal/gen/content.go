package gen

// Content classes shared by the round-trip properties.  Samples are returned
// pixel-interleaved (x fastest, then component... i.e. index = (y*w+x)*c + k)
// as unsigned values in [0, 2^p).
var Classes = []string{
	"noise", "const", "twolevel", "altext", "ramp", "checker", "runs",
	"runend", "impulses", "lowent", "edges", "rampstep", "vstripes", "smooth", "bands",
}

// Content builds w*h*c samples of the given class.  aux parameterises a few
// classes (rampstep: step; edges: distance from the range ends).
func Content(r *Rand, class string, w, h, c, p, aux int) []int {
	n := w * h * c
	s := make([]int, n)
	max := (1 << uint(p)) - 1
	at := func(x, y, k int) *int { return &s[(y*w+x)*c+k] }
	switch class {
	case "noise":
		for i := range s {
			s[i] = int(r.U64() & uint64(max))
		}
	case "gainmax":
		// two saturated colours laid out in the sign pattern of ONE equivalent 5/3 analysis
		// filter (level 1..5, low- or high-pass per axis), so that a single wavelet coefficient
		// collects nearly the whole L1 gain of its sub-band: the largest coefficient magnitudes a
		// legal image can produce.  Three components: magenta / green (after the reversible
		// colour transform both chroma components swing over +-(2^P-1)) or white / black.
		lvl := 1 + r.Intn(5)
		for lvl > 1 && (1<<uint(lvl)) > w && (1<<uint(lvl)) > h {
			lvl--
		}
		sx := gainSigns(r, w, lvl, r.Bool())
		sy := gainSigns(r, h, lvl, r.Bool())
		white := r.Chance(1, 4)
		inv := r.Bool()
		for y := 0; y < h; y++ {
			for x := 0; x < w; x++ {
				pos := sx[x]*sy[y] > 0
				if inv {
					pos = !pos
				}
				for k := 0; k < c; k++ {
					on := pos
					if !white && c >= 3 && k%3 == 1 {
						on = !pos
					}
					if on {
						*at(x, y, k) = max
					}
				}
			}
		}
	case "flatnoise":
		// smooth ramp; every 32-line stripe starts with 6..14 flat lines followed by noisy lines
		// (detail-band code-blocks that open with all-zero quads and then carry noisy magnitudes)
		amp := 1 + r.Intn(max/4+1)
		flat := 6 + r.Intn(9)
		for y := 0; y < h; y++ {
			for x := 0; x < w; x++ {
				for k := 0; k < c; k++ {
					v := max/4 + (max/2)*x/w
					if y%32 >= flat {
						v += r.Intn(2*amp+1) - amp
					}
					if v < 0 {
						v = 0
					}
					if v > max {
						v = max
					}
					*at(x, y, k) = v
				}
			}
		}
	case "ffdense":
		// left / upper differences of +2^(P-1)-1 almost everywhere (at P = 16 every such sample is
		// coded as 7F FF + stuffing when its category has the 1-bit code: a 0xFF every third scan
		// byte), with about 1 % other differences that shift the phase of that pattern, so that
		// over a long scan a 0xFF falls on every byte offset class (buffer and block boundaries)
		step := max / 2
		for y := 0; y < h; y++ {
			for k := 0; k < c; k++ {
				v := 0
				if y > 0 {
					v = (*at(0, y-1, k) + step) & max
				}
				for x := 0; x < w; x++ {
					if x > 0 {
						v = (v + step) & max
					}
					if r.Chance(1, 100) {
						v = (v + 1 + r.Intn(7)) & max
					}
					*at(x, y, k) = v
				}
			}
		}
	case "blocks8":
		// every aligned 8x8 cell entirely 0 or entirely MAXVAL (largest legal DC differences
		// between neighbouring DCT blocks; flat blocks next to saturated ones)
		cw := (w + 7) / 8
		ch := (h + 7) / 8
		on := make([]bool, cw*ch*c)
		for i := range on {
			on[i] = r.Bool()
		}
		for y := 0; y < h; y++ {
			for x := 0; x < w; x++ {
				for k := 0; k < c; k++ {
					if on[((y/8)*cw+x/8)*c+k] {
						*at(x, y, k) = max
					}
				}
			}
		}
	case "annot":
		// speckle whose strength grows across the frame (many run/size symbols with very unequal
		// counts: longest optimised Huffman codes) with burnt-in annotation boxes: 16x16 black
		// squares holding a solid full-scale glyph (full-range edges: largest magnitude categories)
		for y := 0; y < h; y++ {
			for x := 0; x < w; x++ {
				amp := max/64 + (max/4)*x/w + 1
				for k := 0; k < c; k++ {
					v := max*35/100 + r.Intn(2*amp+1) - amp
					if v < 0 {
						v = 0
					}
					if v > max {
						v = max
					}
					*at(x, y, k) = v
				}
			}
		}
		nb := 20 + r.Intn(40)
		for b := 0; b < nb && w > 16 && h > 16; b++ {
			x0, y0 := r.Intn(w-16), r.Intn(h-16)
			gw, gh := 3+r.Intn(10), 3+r.Intn(10)
			for y := y0; y < y0+16; y++ {
				for x := x0; x < x0+16; x++ {
					v := 0
					if x >= x0+2 && x < x0+2+gw && y >= y0+2 && y < y0+2+gh {
						v = max
					}
					for k := 0; k < c; k++ {
						*at(x, y, k) = v
					}
				}
			}
		}
	case "varnoise":
		// noise whose amplitude changes from one 8x8 cell to the next (0..P random bits around
		// mid-grey): code-block / segment byte counts spread over a wide range instead of
		// clustering around one value as they do for uniform noise
		cw, ch := (w+7)/8, (h+7)/8
		bitsOf := make([]uint, cw*ch*c)
		for i := range bitsOf {
			bitsOf[i] = uint(r.Intn(p + 1))
		}
		for y := 0; y < h; y++ {
			for x := 0; x < w; x++ {
				for k := 0; k < c; k++ {
					b := bitsOf[((y/8)*cw+x/8)*c+k]
					v := max/2 + int(r.U64()&((uint64(1)<<b)-1)) - (1<<b)/2
					if v < 0 {
						v = 0
					}
					if v > max {
						v = max
					}
					*at(x, y, k) = v
				}
			}
		}
	case "const":
		v := Pick(r, 0, max, max/2, max/2+1, r.Intn(max+1))
		for i := range s {
			s[i] = v
		}
	case "twolevel":
		for i := range s {
			if r.Bool() {
				s[i] = max
			}
		}
	case "altext":
		// alternating extremes: differences of +-(2^P-1) in x, y or both
		mode := r.Intn(3)
		for y := 0; y < h; y++ {
			for x := 0; x < w; x++ {
				for k := 0; k < c; k++ {
					var b int
					switch mode {
					case 0:
						b = x & 1
					case 1:
						b = y & 1
					default:
						b = (x + y + k) & 1
					}
					if b == 1 {
						*at(x, y, k) = max
					}
				}
			}
		}
	case "ramp":
		step := 1
		if aux > 0 {
			step = aux
		}
		dir := r.Intn(3)
		for y := 0; y < h; y++ {
			for x := 0; x < w; x++ {
				for k := 0; k < c; k++ {
					var v int
					switch dir {
					case 0:
						v = x * step
					case 1:
						v = y * step
					default:
						v = (x + y) * step
					}
					*at(x, y, k) = (v + k*3) & max
				}
			}
		}
	case "rampstep":
		// saw-tooth ramp with the given step, clamped not wrapped
		step := aux
		if step <= 0 {
			step = 1
		}
		for y := 0; y < h; y++ {
			for x := 0; x < w; x++ {
				for k := 0; k < c; k++ {
					v := (x*step + y) % (max + 1)
					*at(x, y, k) = v
				}
			}
		}
	case "checker":
		a, b := 0, max
		if r.Bool() {
			a, b = r.Intn(max+1), r.Intn(max+1)
		}
		bs := Pick(r, 1, 1, 2, 3, 8)
		for y := 0; y < h; y++ {
			for x := 0; x < w; x++ {
				for k := 0; k < c; k++ {
					if ((x/bs)+(y/bs))&1 == 0 {
						*at(x, y, k) = a
					} else {
						*at(x, y, k) = b
					}
				}
			}
		}
	case "runs":
		// long flat runs with isolated outliers
		v := r.Intn(max + 1)
		for i := 0; i < n; i += c {
			if r.Chance(1, 23) {
				v = r.Intn(max + 1)
			}
			for k := 0; k < c; k++ {
				s[i+k] = v
			}
			if r.Chance(1, 17) {
				s[i+r.Intn(c)] = r.Intn(max + 1)
			}
		}
	case "runend":
		// every line is flat and the run ends exactly at the line end; some
		// lines get one outlier at the last or first position
		for y := 0; y < h; y++ {
			v := r.Intn(max + 1)
			for x := 0; x < w; x++ {
				for k := 0; k < c; k++ {
					*at(x, y, k) = v
				}
			}
			switch r.Intn(4) {
			case 0:
				*at(w-1, y, r.Intn(c)) = r.Intn(max + 1)
			case 1:
				*at(0, y, r.Intn(c)) = r.Intn(max + 1)
			}
		}
	case "impulses":
		base := Pick(r, 0, max/2, max)
		for i := range s {
			s[i] = base
		}
		k := 1 + r.Intn(4)
		for i := 0; i < k; i++ {
			s[r.Intn(n)] = r.Intn(max + 1)
		}
	case "lowent":
		nv := 2 + r.Intn(3)
		vals := make([]int, nv)
		for i := range vals {
			vals[i] = r.Intn(max + 1)
		}
		for i := range s {
			s[i] = vals[r.Intn(nv)]
		}
	case "edges":
		// values within aux of 0 and of max
		d := aux
		if d > max/2 {
			d = max / 2
		}
		for i := range s {
			o := r.Intn(d + 1)
			if r.Bool() {
				s[i] = o
			} else {
				s[i] = max - o
			}
		}
	case "vstripes":
		for y := 0; y < h; y++ {
			for x := 0; x < w; x++ {
				for k := 0; k < c; k++ {
					*at(x, y, k) = int(Mix(uint64(x), uint64(k), 77)) & max
				}
			}
		}
	case "smooth":
		// low amplitude noise around a slowly varying base
		amp := 1 + max/64
		for y := 0; y < h; y++ {
			for x := 0; x < w; x++ {
				for k := 0; k < c; k++ {
					v := (max/3 + x*max/(4*w+1) + y*max/(4*h+1)) + r.Intn(2*amp+1) - amp
					if v < 0 {
						v = 0
					}
					if v > max {
						v = max
					}
					*at(x, y, k) = v
				}
			}
		}
	case "specks":
		// flat image with a few samples one level off (coefficients of magnitude 1)
		base := Pick(r, max/2, max/2+1, 1, max-1, r.Intn(max+1))
		for i := range s {
			s[i] = base
		}
		k := 1 + r.Intn(7)
		for i := 0; i < k; i++ {
			v := base + Pick(r, -1, 1)
			if v < 0 {
				v = 1
			}
			if v > max {
				v = max - 1
			}
			s[r.Intn(n)] = v
		}
	case "primaries":
		// blocks of pure primaries / secondaries (each channel exactly 0 or max)
		bs := Pick(r, 1, 2, 4, 8)
		for y := 0; y < h; y++ {
			for x := 0; x < w; x++ {
				m := int(Mix(uint64(x/bs), uint64(y/bs), r.s) % 8)
				for k := 0; k < c; k++ {
					if (m>>uint(k%3))&1 == 1 {
						*at(x, y, k) = max
					}
				}
			}
		}
	case "bands":
		// every row constant; neighbouring rows differ (first-column differences
		// whose category no other sample of the image uses)
		v := r.Intn(max + 1)
		for y := 0; y < h; y++ {
			if y == 0 || !r.Chance(1, 4) {
				v = r.Intn(max + 1)
			}
			for x := 0; x < w; x++ {
				for k := 0; k < c; k++ {
					*at(x, y, k) = (v + k) & max
				}
			}
		}
	case "fibcat":
		// left-neighbour differences whose Huffman categories 0..P follow Fibonacci
		// frequencies (deepest possible code tree; category 16 = difference -32768 at P=16)
		fib := []int{1, 1}
		for len(fib) <= p {
			fib = append(fib, fib[len(fib)-1]+fib[len(fib)-2])
		}
		// exact multiples of the Fibonacci counts (the code-tree depth depends on the
		// exact ratios), the remainder goes to category 0
		total := 0
		for cat := 0; cat <= p; cat++ {
			total += fib[p-cat]
		}
		cycles := n / total
		if cycles < 1 {
			cycles = 1
		}
		var cats []int
		for cat := 0; cat <= p; cat++ {
			for i := 0; i < fib[p-cat]*cycles; i++ {
				cats = append(cats, cat)
			}
		}
		for len(cats) < n {
			cats = append(cats, 0)
		}
		for i := len(cats) - 1; i > 0; i-- {
			j := r.Intn(i + 1)
			cats[i], cats[j] = cats[j], cats[i]
		}
		mod := max + 1
		for k := 0; k < c; k++ {
			prev := 1 << uint(p-1)
			for y := 0; y < h; y++ {
				for x := 0; x < w; x++ {
					cat := cats[((y*w+x)*c+k)%len(cats)]
					d := 0
					switch {
					case cat == 0:
					case cat == p && p == 16:
						d = -32768
					default:
						d = 1<<uint(cat-1) + r.Intn(1<<uint(cat-1))
						if cat >= p {
							d = 1<<uint(p-1) + r.Intn(1<<uint(p-1)) - 1
						}
						if r.Bool() {
							d = -d
						}
					}
					if x == 0 && y > 0 {
						prev = *at(0, y-1, k)
					}
					v := ((prev+d)%mod + mod) % mod
					*at(x, y, k) = v
					prev = v
				}
			}
		}
	default:
		panic("gen.Content: unknown class " + class)
	}
	return s
}

// Pack serialises samples into the container the properties prescribe: one
// byte per sample for p<=8, two little-endian bytes otherwise, high bits zero.
func Pack(s []int, p int) []byte {
	if p <= 8 {
		b := make([]byte, len(s))
		for i, v := range s {
			b[i] = byte(v)
		}
		return b
	}
	b := make([]byte, 2*len(s))
	for i, v := range s {
		b[2*i] = byte(v)
		b[2*i+1] = byte(v >> 8)
	}
	return b
}

// PackN serialises into a fixed container of bytesPer bytes (1, 2 or 4), LE.
func PackN(s []int, bytesPer int) []byte {
	b := make([]byte, bytesPer*len(s))
	for i, v := range s {
		for k := 0; k < bytesPer; k++ {
			b[i*bytesPer+k] = byte(v >> (8 * uint(k)))
		}
	}
	return b
}

func Unpack(b []byte, p int) []int {
	if p <= 8 {
		s := make([]int, len(b))
		for i, v := range b {
			s[i] = int(v)
		}
		return s
	}
	s := make([]int, len(b)/2)
	for i := range s {
		s[i] = int(b[2*i]) | int(b[2*i+1])<<8
	}
	return s
}

// Sizes that sit on interesting boundaries.
var BoundarySizes = []int{1, 2, 3, 4, 5, 6, 7, 8, 9, 10, 11, 12, 13, 14, 15, 16, 17, 31, 32, 33, 63, 64, 65, 127, 128, 129, 255, 256, 257, 511, 512}

// SmallSize draws a dimension with a bias towards small and boundary values.
func SmallSize(r *Rand, max int) int {
	for {
		var v int
		switch r.Intn(4) {
		case 0:
			v = 1 + r.Intn(8)
		case 1:
			v = BoundarySizes[r.Intn(len(BoundarySizes))]
		default:
			v = 1 + r.Intn(max)
		}
		if v <= max {
			return v
		}
	}
}

// gainSigns returns, for a line of n samples, the signs (+1/-1) of the equivalent 1-D 5/3
// analysis filter of decomposition level lvl (low-pass when !high) centred near the middle of
// the line; samples outside the filter support get random signs.
func gainSigns(r *Rand, n, lvl int, high bool) []int {
	// equivalent low-pass filter of level l as offset -> coefficient, centred on 0
	low := map[int]float64{0: 1}
	h0 := map[int]float64{-2: -0.125, -1: 0.25, 0: 0.75, 1: 0.25, 2: -0.125}
	h1 := map[int]float64{-1: -0.5, 0: 1, 1: -0.5}
	conv := func(e map[int]float64, f map[int]float64, step int) map[int]float64 {
		o := map[int]float64{}
		for j, fj := range f {
			for k, ek := range e {
				o[k+step*j] += fj * ek
			}
		}
		return o
	}
	var eq map[int]float64
	centre := 0
	for l := 1; l <= lvl; l++ {
		step := 1 << uint(l-1)
		if l == lvl {
			if high {
				eq = conv(low, h1, step)
				// centred on an odd sample of the level l-1 grid
				centre = step * (2*((n/step)/4) + 1)
			} else {
				eq = conv(low, h0, step)
				centre = 2 * step * ((n / step) / 4)
			}
		} else {
			low = conv(low, h0, step)
		}
	}
	s := make([]int, n)
	for i := range s {
		v, ok := eq[i-centre]
		switch {
		case ok && v > 0:
			s[i] = 1
		case ok && v < 0:
			s[i] = -1
		case r.Bool():
			s[i] = 1
		default:
			s[i] = -1
		}
	}
	return s
}
