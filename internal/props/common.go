// Package props wires each property's workload to its oracle.
package props

import (
	"encoding/json"
	"fmt"
	"sync"

	"github.com/cocosip/go-dicom/pkg/dicom/transfer"
	dcodec "github.com/cocosip/go-dicom/pkg/imaging/codec"
	"github.com/cocosip/go-dicom/pkg/imaging/imagetypes"

	_ "github.com/cocosip/go-dicom-codecs/jpeg/baseline"
	_ "github.com/cocosip/go-dicom-codecs/jpeg/extended"
	_ "github.com/cocosip/go-dicom-codecs/jpeg/lossless"
	_ "github.com/cocosip/go-dicom-codecs/jpeg/lossless14sv1"
	_ "github.com/cocosip/go-dicom-codecs/jpeg2000/htj2k"
	_ "github.com/cocosip/go-dicom-codecs/jpeg2000/lossless"
	_ "github.com/cocosip/go-dicom-codecs/jpeg2000/lossy"
	_ "github.com/cocosip/go-dicom-codecs/jpegls/lossless"
	_ "github.com/cocosip/go-dicom-codecs/jpegls/nearlossless"
	_ "github.com/cocosip/go-dicom-codecs/rle"

	"verif/internal/mon"
)

// All is the registry of properties, filled by the init() of each cNN.go.
var All = map[string]mon.Property{}

func register(p mon.Property) { All[p.ID()] = p }

// decodeInto is the generic Decode helper.
func decodeInto[T any](raw json.RawMessage) (any, error) {
	v := new(T)
	if err := json.Unmarshal(raw, v); err != nil {
		return nil, err
	}
	return v, nil
}

// PD is the harness's own imagetypes.PixelData.  It records every call.
type PD struct {
	mu     sync.Mutex
	Info   *imagetypes.FrameInfo
	Frames [][]byte
	Log    []PDEvent
	// fault injection
	FailGetAt int // 1-based call number of GetFrame that returns an error (0 = never)
	FailAddAt int
	gets      int
	adds      int
}

type PDEvent struct {
	Op  string // "get" | "add" | "count"
	Idx int
	Len int
}

func NewPD(info *imagetypes.FrameInfo, frames ...[]byte) *PD {
	return &PD{Info: info, Frames: frames}
}

func (p *PD) GetFrame(i int) ([]byte, error) {
	p.mu.Lock()
	defer p.mu.Unlock()
	p.gets++
	p.Log = append(p.Log, PDEvent{"get", i, 0})
	if p.FailGetAt != 0 && p.gets == p.FailGetAt {
		return nil, fmt.Errorf("injected GetFrame failure")
	}
	if i < 0 || i >= len(p.Frames) {
		return nil, fmt.Errorf("frame %d out of range", i)
	}
	return p.Frames[i], nil
}

func (p *PD) AddFrame(b []byte) error {
	p.mu.Lock()
	defer p.mu.Unlock()
	p.adds++
	p.Log = append(p.Log, PDEvent{"add", len(p.Frames), len(b)})
	if p.FailAddAt != 0 && p.adds == p.FailAddAt {
		return fmt.Errorf("injected AddFrame failure")
	}
	p.Frames = append(p.Frames, b)
	return nil
}

func (p *PD) FrameCount() int {
	p.mu.Lock()
	defer p.mu.Unlock()
	return len(p.Frames)
}
func (p *PD) GetFrameInfo() *imagetypes.FrameInfo { return p.Info }
func (p *PD) IsEncapsulated() bool                { return false }

// Syntaxes: the 14 registered transfer syntaxes, by short name.
var Syntaxes = []struct {
	Name string
	TS   *transfer.Syntax
}{
	{"rle", transfer.RLELossless},
	{".50", transfer.JPEGBaseline8Bit},
	{".51", transfer.JPEGProcess2_4},
	{".57", transfer.JPEGLossless},
	{".70", transfer.JPEGLosslessSV1},
	{".80", transfer.JPEGLSLossless},
	{".81", transfer.JPEGLSNearLossless},
	{".90", transfer.JPEG2000Lossless},
	{".91", transfer.JPEG2000Lossy},
	{".92", transfer.JPEG2000Part2MultiComponentLosslessOnly},
	{".93", transfer.JPEG2000Part2MultiComponent},
	{".201", transfer.HTJ2KLossless},
	{".202", transfer.HTJ2KLosslessRPCL},
	{".203", transfer.HTJ2K},
}

func SyntaxByName(n string) *transfer.Syntax {
	for _, s := range Syntaxes {
		if s.Name == n {
			return s.TS
		}
	}
	return nil
}

// Codec returns the registered codec instance for a short name.
func Codec(n string) dcodec.Codec {
	ts := SyntaxByName(n)
	if ts == nil {
		panic("unknown syntax " + n)
	}
	c, ok := dcodec.GetGlobalRegistry().GetCodec(ts)
	if !ok {
		panic("codec not registered: " + n)
	}
	return c
}

func FrameInfo(w, h, ba, bs, spp, pr, planar int) *imagetypes.FrameInfo {
	pi := "MONOCHROME2"
	if spp == 3 {
		pi = "RGB"
	}
	return &imagetypes.FrameInfo{
		Width: uint16(w), Height: uint16(h), BitsAllocated: uint16(ba), BitsStored: uint16(bs),
		HighBit: uint16(bs - 1), SamplesPerPixel: uint16(spp), PixelRepresentation: uint16(pr),
		PlanarConfiguration: uint16(planar), PhotometricInterpretation: pi,
	}
}

// firstDiff returns the first index where a and b differ (or min length if
// only the lengths differ), -1 if equal.
func firstDiff(a, b []byte) int {
	n := len(a)
	if len(b) < n {
		n = len(b)
	}
	for i := 0; i < n; i++ {
		if a[i] != b[i] {
			return i
		}
	}
	if len(a) != len(b) {
		return n
	}
	return -1
}

func hexHead(b []byte, n int) string {
	if len(b) > n {
		b = b[:n]
	}
	return fmt.Sprintf("%x", b)
}
