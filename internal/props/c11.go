package props

import (
	"encoding/json"
	"fmt"
	"math"

	"github.com/cocosip/go-dicom-codecs/jpeg/baseline"
	"github.com/cocosip/go-dicom-codecs/jpeg/extended"

	"verif/internal/gen"
	"verif/internal/mon"
	"verif/internal/ref"
)

// C11 — Baseline/Extended DCT: loss bounded by the declared quantisation.

type c11Case struct {
	Gen     string `json:"gen"`
	Codec   string `json:"codec"` // baseline | extended
	W       int    `json:"w"`
	H       int    `json:"h"`
	C       int    `json:"c"`
	P       int    `json:"p"`
	Quality int    `json:"quality"`
	Class   string `json:"class"`
	U       int    `json:"u,omitempty"`
	V       int    `json:"v,omitempty"`
	CSeed   uint64 `json:"cseed"`
}

type c11 struct{}

func init() { register(c11{}) }

func (c11) ID() string { return "C11" }
func (c11) Rule() string {
	return "baseline.Encode/Decode (8-bit, 1 or 3 components) and extended.Encode/Decode (8-bit 1/3 components, 12-bit 1 component). The strict T.81 walker reads DQT, SOF and the Tq assignment from the emitted stream; E_t = (1/8)*sum C(u)C(v)Q_t(u,v); bound grey = E_0+2, RGB = |M^-1|(E_Y,E_Cb,E_Cr)+5; every decoded sample within the bound, geometry equal, decoder accepts the stream; quality 100 => grey error <= 10. " +
		"cases: every quality 1..100 on noise and on a structured image per codec mode; every size in a small square (all partial-block shapes) every size to 17x17 (quick, sampled for the wider modes) or 49x49 (thorough) and sampled sizes up to 512; contents: noise, Nyquist checkerboards, one image per DCT basis function (u,v) at full amplitude, black/white extremes, 12-bit ramps. " +
		"non-trivial: encoder and decoder accepted, the walker parsed DQT/SOF, every sample compared; distinct = distinct descriptor"
}
func (c11) Assumptions() []string {
	return []string{"internal/ref/jpegwalk.go (strict T.81 marker walker) extracts the quantisation tables the stream declares", "JFIF/T.871 inverse colour matrix for propagating chroma bounds to RGB"}
}
func (c11) Decode(raw json.RawMessage) (any, error) { return decodeInto[c11Case](raw) }

type c11Mode struct {
	codec string
	c, p  int
}

var c11Modes = []c11Mode{{"baseline", 1, 8}, {"baseline", 3, 8}, {"extended", 1, 8}, {"extended", 3, 8}, {"extended", 1, 12}}

func (c11) Build(tier string, seed uint64) []any {
	var cs []any
	th := tier == "thorough"
	k := 0
	// every quality
	qClasses := []string{"noise", "structured"}
	if th {
		qClasses = []string{"noise", "structured", "structured", "structured", "noise", "structured", "structured", "structured"}
	}
	for _, m := range c11Modes {
		for q := 1; q <= 100; q++ {
			for _, cl := range qClasses {
				if !th && cl == "structured" && q%4 != int(seed%4) {
					continue
				}
				r := gen.Sub(seed, "C11", "quality", k)
				k++
				class := cl
				if cl == "structured" {
					class = gen.Pick(r, "checker", "extremes", "ramp", "smooth", "runs")
				}
				cs = append(cs, &c11Case{Gen: "quality", Codec: m.codec, C: m.c, P: m.p, Quality: q, W: 8 + r.Intn(41), H: 8 + r.Intn(41), Class: class, CSeed: r.U64()})
			}
		}
	}
	// sizes
	lim := 25
	if th {
		lim = 49
	}
	for _, m := range c11Modes {
		for w := 1; w <= lim; w++ {
			for h := 1; h <= lim; h++ {
				if !th && (m.c == 3 || m.p == 12 || m.codec == "extended") && (w*31+h*17+int(seed))%5 != 0 {
					continue
				}
				r := gen.Sub(seed, "C11", "size", k)
				k++
				cs = append(cs, &c11Case{Gen: "size", Codec: m.codec, C: m.c, P: m.p, Quality: gen.Pick(r, 1, 10, 25, 50, 75, 90, 95, 100), W: w, H: h, Class: gen.Pick(r, "noise", "noise", "checker", "extremes"), CSeed: r.U64()})
			}
		}
	}
	// basis functions at high quality
	for _, m := range c11Modes {
		for u := 0; u < 8; u++ {
			for v := 0; v < 8; v++ {
				if !th && (m.codec == "extended" && m.p == 8) && (u+v+int(seed))%2 == 0 {
					continue
				}
				cs = append(cs, &c11Case{Gen: "basis", Codec: m.codec, C: m.c, P: m.p, Quality: gen.Pick(gen.Sub(seed, "C11", "basis", k), 90, 95, 100), W: 16, H: 16, Class: "basis", U: u, V: v})
				k++
			}
		}
	}
	// pure primaries at high quality (colour conversion at the ends of the range)
	for i, q := range []int{90, 95, 98, 100, 75, 50} {
		for _, codec := range []string{"baseline", "extended"} {
			r := gen.Sub(seed, "C11", "primaries", i)
			cs = append(cs, &c11Case{Gen: "primaries", Codec: codec, C: 3, P: 8, Quality: q, W: 16 + r.Intn(24), H: 16 + r.Intn(24), Class: "primaries", CSeed: r.U64()})
		}
	}
	// large busy images (deep Huffman trees)
	for i, sz := range []int{256, 384, 512} {
		if !th && i != int(seed%3) {
			continue
		}
		for _, m := range c11Modes {
			if m.c != 1 {
				continue
			}
			r := gen.Sub(seed, "C11", "bignoise", i)
			cs = append(cs, &c11Case{Gen: "bignoise", Codec: m.codec, C: 1, P: m.p, Quality: gen.Pick(r, 60, 75, 90, 100), W: sz, H: sz, Class: "noise", CSeed: r.U64()})
		}
	}
	// large
	nBig := 40
	if th {
		nBig = 2500
	}
	for i := 0; i < nBig; i++ {
		r := gen.Sub(seed, "C11", "big", i)
		m := c11Modes[i%len(c11Modes)]
		cs = append(cs, &c11Case{Gen: "big", Codec: m.codec, C: m.c, P: m.p, Quality: 1 + r.Intn(100), W: gen.Pick(r, 255, 256, 257, 511, 512, 100+r.Intn(400)), H: gen.Pick(r, 255, 256, 257, 511, 512, 100+r.Intn(400)), Class: gen.Pick(r, "noise", "checker", "smooth"), CSeed: r.U64()})
	}
	// (annot) large busy frames (long Huffman codes) that also contain full-range edges (largest
	// magnitude categories) at the finest quantisation; (blocks8) saturated flat blocks next to
	// black ones (largest legal DC differences) at quantiser step 1
	nAnnot := 200
	if th {
		nAnnot = 2000
	}
	for i := 0; i < nAnnot; i++ {
		r := gen.Sub(seed, "C11", "annot", i)
		m := c11Modes[i%len(c11Modes)]
		c := &c11Case{Gen: "annot", Codec: m.codec, C: m.c, P: m.p, Quality: gen.Pick(r, 94, 97, 100, 100, 100, 100), W: 512, H: 512, Class: "annot", CSeed: r.U64()}
		if m.c == 3 && i%2 == 0 {
			c.C = 1
		}
		if i%4 == 3 {
			c.Gen, c.Class, c.W, c.H = "blocks8", "blocks8", 8*(1+r.Intn(12)), 8*(1+r.Intn(12))
		}
		cs = append(cs, c)
	}
	return cs
}

func (c *c11Case) samples() []int {
	max := (1 << uint(c.P)) - 1
	r := gen.New(c.CSeed)
	switch c.Class {
	case "extremes":
		return gen.Content(r, gen.Pick(r, "twolevel", "altext"), c.W, c.H, c.C, c.P, 0)
	case "basis":
		s := make([]int, c.W*c.H*c.C)
		for y := 0; y < c.H; y++ {
			for x := 0; x < c.W; x++ {
				f := math.Cos(float64(2*(x%8)+1)*float64(c.U)*math.Pi/16) * math.Cos(float64(2*(y%8)+1)*float64(c.V)*math.Pi/16)
				v := int(math.Round(float64(max)/2 + f*float64(max)/2))
				if v < 0 {
					v = 0
				}
				if v > max {
					v = max
				}
				for k := 0; k < c.C; k++ {
					s[(y*c.W+x)*c.C+k] = v
				}
			}
		}
		return s
	}
	return gen.Content(r, c.Class, c.W, c.H, c.C, c.P, 1)
}

func dctBound(t [64]int) float64 {
	s := 0.0
	for v := 0; v < 8; v++ {
		for u := 0; u < 8; u++ {
			cu, cv := 1.0, 1.0
			if u == 0 {
				cu = 1 / math.Sqrt2
			}
			if v == 0 {
				cv = 1 / math.Sqrt2
			}
			s += cu * cv * float64(t[v*8+u])
		}
	}
	return s / 8
}

func (c11) Exec(d any) mon.Result {
	c := d.(*c11Case)
	res := mon.Hold()
	res.Cell(fmt.Sprintf("mode=%s/c%d/p%d", c.Codec, c.C, c.P))
	res.Cell(fmt.Sprintf("quality=%03d", c.Quality))
	res.Cell("class=" + c.Class)
	if c.W <= 16 && c.H <= 16 {
		res.Cell(fmt.Sprintf("partial=%dx%d", c.W%8, c.H%8))
	}
	s := c.samples()
	px := gen.Pack(s, c.P)
	keep := append([]byte(nil), px...)
	var stream []byte
	var err error
	if c.Codec == "baseline" {
		stream, err = baseline.Encode(px, c.W, c.H, c.C, c.Quality)
	} else {
		stream, err = extended.Encode(px, c.W, c.H, c.C, c.P, c.Quality)
	}
	if err != nil {
		return mon.Violation("encode-error", err.Error())
	}
	if firstDiff(px, keep) >= 0 {
		return mon.Violation("source-modified", "Encode modified the caller's pixel buffer")
	}
	inf, werr := ref.WalkJPEG(stream)
	if werr != nil {
		return mon.Violation("stream-malformed", werr.Error())
	}
	if inf.W != c.W || inf.H != c.H || len(inf.Comps) != c.C || inf.P != c.P {
		return mon.Violation("header-geometry", fmt.Sprintf("SOF declares %dx%d c=%d P=%d, encoder was given %dx%d c=%d P=%d", inf.W, inf.H, len(inf.Comps), inf.P, c.W, c.H, c.C, c.P))
	}
	E := make([]float64, c.C)
	for k, fc := range inf.Comps {
		t, ok := inf.DQT[fc.Tq]
		if !ok {
			return mon.Violation("stream-malformed", fmt.Sprintf("component %d references undefined quantisation table %d", fc.ID, fc.Tq))
		}
		E[k] = dctBound(t)
	}
	var out []byte
	var dw, dh, dc, dp int
	if c.Codec == "baseline" {
		out, dw, dh, dc, err = baseline.Decode(stream)
		dp = 8
	} else {
		out, dw, dh, dc, dp, err = extended.Decode(stream)
	}
	if err != nil {
		return mon.Violation("decoder-rejects-own-stream", err.Error())
	}
	if dw != c.W || dh != c.H || dc != c.C || dp != c.P {
		return mon.Violation("geometry", fmt.Sprintf("decoder reports %dx%d c=%d P=%d, expected %dx%d c=%d P=%d", dw, dh, dc, dp, c.W, c.H, c.C, c.P))
	}
	if len(out) != len(px) {
		return mon.Violation("length", fmt.Sprintf("decoded %d bytes, expected %d", len(out), len(px)))
	}
	got := gen.Unpack(out, c.P)
	bound := make([]float64, c.C)
	if c.C == 1 {
		bound[0] = E[0] + 2
	} else {
		bound[0] = E[0] + 1.402*E[2] + 5
		bound[1] = E[0] + 0.344136*E[1] + 0.714136*E[2] + 5
		bound[2] = E[0] + 1.772*E[1] + 5
	}
	worst := 0.0
	max := (1 << uint(c.P)) - 1
	for i := range s {
		e := got[i] - s[i]
		if e < 0 {
			e = -e
		}
		if got[i] > max {
			return mon.Violation("out-of-range", fmt.Sprintf("sample %d decoded %d > %d", i, got[i], max))
		}
		b := bound[i%c.C]
		if float64(e) > b {
			return mon.Violation("quantisation-bound-exceeded", fmt.Sprintf("sample %d (x=%d y=%d comp=%d): decoded %d, source %d, |err|=%d > bound %.1f (E=%v, quality %d)", i, (i/c.C)%c.W, i/c.C/c.W, i%c.C, got[i], s[i], e, b, E, c.Quality))
		}
		if c.Quality == 100 && c.C == 1 && e > 10 {
			return mon.Violation("quality100-bound-exceeded", fmt.Sprintf("sample %d: |err|=%d > 10 at quality 100", i, e))
		}
		if r := float64(e) / b; r > worst {
			worst = r
		}
	}
	res.AddFeat(fmt.Sprintf("slack_decile_%d", int(worst*10)), 1)
	res.AddFeat("stream_bytes", int64(len(stream)))
	return res
}
