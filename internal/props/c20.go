package props

import (
	"encoding/json"
	"fmt"
	"time"

	"github.com/cocosip/go-dicom-codecs/jpeg2000/colorspace"
	"github.com/cocosip/go-dicom-codecs/jpeg2000/mqc"
	"github.com/cocosip/go-dicom-codecs/jpeg2000/t1"
	"github.com/cocosip/go-dicom-codecs/jpeg2000/wavelet"

	"verif/internal/gen"
	"verif/internal/mon"
)

// C20 — JPEG 2000 building blocks are exact inverses: MQ, T1, 5/3 DWT, RCT.

type c20Case struct {
	Gen string `json:"gen"`
	// mq
	Len    int    `json:"len,omitempty"`
	Prefix int    `json:"prefix,omitempty"`
	PLen   int    `json:"plen,omitempty"` // number of leading symbols fixed by Prefix (mq-enum; 0 = 2 when Prefix>=0)
	Init   int    `json:"init,omitempty"` // initial context-state variant
	NCtx   int    `json:"nctx,omitempty"`
	Bias   int    `json:"bias,omitempty"` // percent of 1 bits
	Pat    string `json:"pat,omitempty"`
	// t1
	W      int `json:"w,omitempty"`
	H      int `json:"h,omitempty"`
	Style  int `json:"style,omitempty"`
	Orient int `json:"orient,omitempty"`
	MagBit int `json:"magbits,omitempty"`
	Dens   int `json:"density,omitempty"` // percent non-zero
	// dwt
	Levels int  `json:"levels,omitempty"`
	X0     int  `json:"x0,omitempty"`
	Y0     int  `json:"y0,omitempty"`
	Even   bool `json:"even,omitempty"`
	// shared
	N     int    `json:"n,omitempty"`
	CSeed uint64 `json:"cseed,omitempty"`
}

type c20 struct{}

func init() { register(c20{}) }

func (c20) ID() string { return "C20" }
func (c20) Rule() string {
	return "four monitors on the exported layers: MQ (complete enumeration of all (bit,context) sequences up to a length over 2 contexts for several initial-state variants, batched, distinct by construction; seeded random/adversarial sequences up to 1e5 symbols, 1..19 contexts, bias 0..100%), " +
		"T1 (EncodeLayered -> DecodeLayeredWithMode driven with the cumulative pass lengths the encoder reports, all 64 style combinations x block shapes x orientations; style 0 also through DecodeWithBitplane), 5/3 DWT (complete enumeration of 1-D signals over {-2..2} for both parities; 2-D multilevel with origin parity), RCT (complete [-8..8]^3, random triples within +-2^28). " +
		"non-trivial: the encoder produced output that the decoder consumed and the results were compared (all-zero T1 blocks, for which EncodeLayered emits nothing, are counted trivial); distinct = distinct descriptor" +
		" (t1enum) complete execution of all rows and columns of 6 samples over {0,-2,2,-1,32,34} (six bit-planes: the two lowest are raw-coded under the bypass style) for every LAZY+TERMALL style and a quarter (thorough: all) of the other decodable styles"
}
func (c20) Assumptions() []string {
	return []string{"round-trip oracle only: compares the decoder's output with the encoder's input, no reference implementation involved"}
}
func (c20) Decode(raw json.RawMessage) (any, error) { return decodeInto[c20Case](raw) }

var c20MQInits = [][2]uint8{{0, 0}, {46, 3}, {4, 0}, {0x80 | 10, 20}, {45, 0x80 | 45}}

func pow(b, n int) int {
	r := 1
	for i := 0; i < n; i++ {
		r *= b
	}
	return r
}

func (c20) Build(tier string, seed uint64) []any {
	var cs []any
	th := tier == "thorough"
	mqMax, nMQ, nT1PerStyle, dwtMax, nDWT, nRCT := 8, 1500, 700, 7, 2000, 60
	if th {
		mqMax, nMQ, nT1PerStyle, dwtMax, nDWT, nRCT = 16, 3000, 1500, 8, 6000, 200
	}
	// MQ enumeration
	for L := 1; L <= mqMax; L++ {
		for init := range c20MQInits {
			if init > 1 && L > 9 {
				continue
			}
			if init == 1 && L > 13 {
				continue
			}
			switch {
			case L <= 4:
				cs = append(cs, &c20Case{Gen: "mq-enum", Len: L, Prefix: -1, Init: init})
			case L <= 11:
				for p := 0; p < 16; p++ {
					cs = append(cs, &c20Case{Gen: "mq-enum", Len: L, Prefix: p, PLen: 2, Init: init})
				}
			default:
				pl := L - 9 // 4^9 sequences per batch
				for p := 0; p < pow(4, pl); p++ {
					cs = append(cs, &c20Case{Gen: "mq-enum", Len: L, Prefix: p, PLen: pl, Init: init})
				}
			}
		}
	}
	// MQ random / adversarial
	pats := []string{"iid", "iid", "iid", "lps-burst", "alternate", "long-mps", "ctx-sweep"}
	for i := 0; i < nMQ; i++ {
		r := gen.Sub(seed, "C20", "mq", i)
		n := gen.Pick(r, 1, 2, 5, 17, 100, 1000, 1000, 5000, 20000)
		if th && r.Chance(1, 20) {
			n = 100000
		}
		cs = append(cs, &c20Case{Gen: "mq-rand", N: n, NCtx: 1 + r.Intn(19), Bias: 5 * r.Intn(21), Pat: pats[r.Intn(len(pats))], CSeed: r.U64()})
	}
	// T1: 64 styles x blocks
	for style := 0; style < 64; style++ {
		for i := 0; i < nT1PerStyle; i++ {
			r := gen.Sub(seed, "C20", fmt.Sprintf("t1-%d", style), i)
			var w, h int
			switch i % 5 {
			case 0:
				w, h = 1+r.Intn(8), 1+r.Intn(9) // every width <= 8, heights covering mod 4
			case 1:
				w, h = gen.Pick(r, 1, 2, 3, 4, 5, 8, 16, 32, 64), 1+r.Intn(64)
			case 2:
				w, h = 1+r.Intn(64), gen.Pick(r, 1, 2, 3, 4, 5, 6, 7, 8, 9, 63, 64)
			case 3:
				w, h = gen.Pick(r, 4, 8, 16, 32, 64), gen.Pick(r, 4, 8, 16, 32, 64)
			default:
				w, h = 1+r.Intn(64), 1+r.Intn(64)
			}
			if !th && w*h > 1024 {
				w, h = 1+w%32, 1+h%32
			}
			mb := gen.Pick(r, 1, 2, 3, 5, 8, 12, 16, 20, 24)
			cs = append(cs, &c20Case{Gen: "t1", W: w, H: h, Style: style, Orient: r.Intn(4), MagBit: mb, Dens: gen.Pick(r, 1, 10, 50, 100), CSeed: r.U64()})
		}
	}
	// (t1enum) complete execution of all rows / columns of 6 samples over {0,-2,2,-1,32,34}
	// for the decodable styles (quick: every LAZY+TERMALL style and every fourth other one)
	for style := 0; style < 64; style++ {
		lazy, termall := style&t1.CblkStyleLazy != 0, style&t1.CblkStyleTermAll != 0
		if lazy && !termall {
			continue // known finding t1-lazy-without-termall
		}
		if !th && !lazy && style%4 != int(seed%4) {
			continue
		}
		for shape := 0; shape < 2; shape++ {
			for pfx := range c20EnumAlphabet {
				c := &c20Case{Gen: "t1enum", W: 6, H: 1, N: 6, Style: style, Orient: (style + shape + pfx) % 4, Prefix: pfx}
				if shape == 1 {
					c.W, c.H = 1, 6
				}
				cs = append(cs, c)
			}
		}
	}
	// DWT 1-D enumeration
	for L := 1; L <= dwtMax; L++ {
		for _, even := range []bool{true, false} {
			if L <= 5 {
				cs = append(cs, &c20Case{Gen: "dwt-enum", Len: L, Prefix: -1, Even: even})
			} else {
				for p := 0; p < 25; p++ {
					cs = append(cs, &c20Case{Gen: "dwt-enum", Len: L, Prefix: p, Even: even})
				}
			}
		}
	}
	// DWT 2-D: all sizes <= 20 (thorough) / <= 9 (quick) once, then random
	lim := 9
	if th {
		lim = 20
	}
	k := 0
	for w := 1; w <= lim; w++ {
		for h := 1; h <= lim; h++ {
			r := gen.Sub(seed, "C20", "dwt-grid", k)
			k++
			cs = append(cs, &c20Case{Gen: "dwt", W: w, H: h, Levels: r.Intn(9), X0: r.Intn(8), Y0: r.Intn(8), MagBit: gen.Pick(r, 2, 8, 16, 26), CSeed: r.U64()})
		}
	}
	for i := 0; i < nDWT; i++ {
		r := gen.Sub(seed, "C20", "dwt", i)
		w, h := 1+r.Intn(257), 1+r.Intn(257)
		if r.Chance(1, 3) {
			w = gen.Pick(r, 1, 2, 3, 255, 256, 257)
		}
		if r.Chance(1, 3) {
			h = gen.Pick(r, 1, 2, 3, 255, 256, 257)
		}
		cs = append(cs, &c20Case{Gen: "dwt", W: w, H: h, Levels: r.Intn(9), X0: r.Intn(8), Y0: r.Intn(8), MagBit: gen.Pick(r, 1, 8, 12, 16, 26), CSeed: r.U64()})
	}
	// RCT
	cs = append(cs, &c20Case{Gen: "rct-enum"})
	for i := 0; i < nRCT; i++ {
		cs = append(cs, &c20Case{Gen: "rct-rand", N: 50000, CSeed: gen.Mix(seed, 20, uint64(i))})
	}
	return cs
}

func (c20) Exec(d any) mon.Result {
	c := d.(*c20Case)
	var r mon.Result
	switch c.Gen {
	case "mq-enum":
		r = c20MQEnum(c)
	case "mq-rand":
		r = c20MQRand(c)
	case "t1":
		r = c20T1(c)
	case "t1enum":
		r = c20T1Enum(c)
	case "dwt-enum":
		r = c20DWTEnum(c)
	case "dwt":
		r = c20DWT(c)
	case "rct-enum", "rct-rand":
		r = c20RCT(c)
	default:
		return mon.Result{V: mon.Inconclusive, Msg: "unknown gen"}
	}
	r.Cell("gen=" + c.Gen)
	return r
}

// mqRoundTrip encodes the (bit,ctx) pairs and decodes them again.
func mqRoundTrip(bits, ctxs []uint8, nctx int, init [2]uint8, feat *mon.Result) (string, string) {
	enc := mqc.NewMQEncoder(nctx)
	if init[0] != 0 || init[1] != 0 {
		enc.SetContextState(0, init[0])
		if nctx > 1 {
			enc.SetContextState(1, init[1])
		}
	}
	for i := range bits {
		enc.Encode(int(bits[i]), int(ctxs[i]))
	}
	data := append([]byte(nil), enc.Flush()...)
	// byte-stream invariants (C16 rule for MQ segments)
	for i := 0; i+1 < len(data); i++ {
		if data[i] == 0xFF {
			if feat != nil {
				feat.AddFeat("mq_ff_bytes", 1)
			}
			if data[i+1] > 0x8F {
				return "mq-marker-in-stream", fmt.Sprintf("byte %d: FF %02X", i, data[i+1])
			}
		}
	}
	if len(data) > 0 && data[len(data)-1] == 0xFF {
		return "mq-ends-in-ff", "MQ segment ends with 0xFF"
	}
	dec := mqc.NewMQDecoder(data, nctx)
	if init[0] != 0 || init[1] != 0 {
		dec.SetContextState(0, init[0])
		if nctx > 1 {
			dec.SetContextState(1, init[1])
		}
	}
	for i := range bits {
		if got := dec.Decode(int(ctxs[i])); got != int(bits[i]) {
			return "mq-mismatch", fmt.Sprintf("symbol %d of %d: decoded %d, encoded %d (ctx %d, %d bytes)", i, len(bits), got, bits[i], ctxs[i], len(data))
		}
	}
	if feat != nil {
		feat.AddFeat("mq_symbols", int64(len(bits)))
		feat.AddFeat("mq_bytes", int64(len(data)))
	}
	return "", ""
}

func c20MQEnum(c *c20Case) mon.Result {
	free := c.Len
	plen := 0
	if c.Prefix >= 0 {
		plen = c.PLen
		if plen == 0 {
			plen = 2
		}
		free = c.Len - plen
	}
	total := pow(4, free)
	bits := make([]uint8, c.Len)
	ctxs := make([]uint8, c.Len)
	agg := mon.Result{V: mon.Held, NonTrivial: true, Sub: total}
	for i := 0; i < total; i++ {
		k := 0
		if c.Prefix >= 0 {
			p := c.Prefix
			for ; k < plen; k++ {
				bits[k], ctxs[k] = uint8(p&1), uint8((p>>1)&1)
				p >>= 2
			}
		}
		v := i
		for ; k < c.Len; k++ {
			bits[k], ctxs[k] = uint8(v&1), uint8((v>>1)&1)
			v >>= 2
		}
		if cl, msg := mqRoundTrip(bits, ctxs, 2, c20MQInits[c.Init], nil); cl != "" {
			return mon.Result{V: mon.Violated, Class: cl, Msg: fmt.Sprintf("bits=%v ctxs=%v: %s", bits, ctxs, msg), NonTrivial: true, Sub: total}
		}
	}
	agg.AddFeat("mq_enum_sequences", int64(total))
	return agg
}

func c20MQRand(c *c20Case) mon.Result {
	r := gen.New(c.CSeed)
	bits := make([]uint8, c.N)
	ctxs := make([]uint8, c.N)
	for i := 0; i < c.N; i++ {
		ctx := r.Intn(c.NCtx)
		var b int
		switch c.Pat {
		case "lps-burst":
			// long MPS stretch to adapt the state, then a burst of the other symbol
			if (i/97)%2 == 0 {
				b = 0
			} else {
				b = 1
			}
			if r.Chance(1, 50) {
				b ^= 1
			}
		case "alternate":
			b = i & 1
		case "long-mps":
			b = 0
			if r.Chance(1, 4000) {
				b = 1
			}
		case "ctx-sweep":
			ctx = i % c.NCtx
			if r.Intn(100) < c.Bias {
				b = 1
			}
		default:
			if r.Intn(100) < c.Bias {
				b = 1
			}
		}
		bits[i], ctxs[i] = uint8(b), uint8(ctx)
	}
	res := mon.Hold()
	if cl, msg := mqRoundTrip(bits, ctxs, c.NCtx, [2]uint8{}, &res); cl != "" {
		return mon.Violation(cl, msg)
	}
	res.Cell("mq-pat=" + c.Pat)
	return res
}

// Derive exposes the style bits and the top bit-plane of a T1 case (computed
// from the generated coefficients, not from the library).
func (c20) Derive(d any) map[string]any {
	c := d.(*c20Case)
	if c.Gen != "t1" {
		return nil
	}
	coeffs, _ := c20T1Coeffs(c)
	var mx int32
	for _, v := range coeffs {
		if v < 0 {
			v = -v
		}
		if v > mx {
			mx = v
		}
	}
	bp := -1
	for mx > 0 {
		bp++
		mx >>= 1
	}
	return map[string]any{
		"lazy": c.Style&t1.CblkStyleLazy != 0, "termall": c.Style&t1.CblkStyleTermAll != 0,
		"reset": c.Style&t1.CblkStyleReset != 0, "vsc": c.Style&t1.CblkStyleVSC != 0,
		"pterm": c.Style&t1.CblkStylePterm != 0, "segsym": c.Style&t1.CblkStyleSegsym != 0,
		"topBitplane": bp,
	}
}

func c20T1Coeffs(c *c20Case) ([]int32, int) {
	r := gen.New(c.CSeed)
	n := c.W * c.H
	coeffs := make([]int32, n)
	nz := 0
	for i := range coeffs {
		if r.Intn(100) < c.Dens {
			m := int32(r.U64() & ((1 << uint(c.MagBit)) - 1))
			if r.Chance(1, 8) {
				m = (1 << uint(c.MagBit)) - 1
			}
			if m != 0 {
				nz++
			}
			if r.Bool() {
				m = -m
			}
			coeffs[i] = m
		}
	}
	return coeffs, nz
}

func c20T1(c *c20Case) mon.Result {
	coeffs, nz := c20T1Coeffs(c)
	return c20T1Block(c, coeffs, nz)
}

var c20EnumAlphabet = []int32{0, -2, 2, -1, 32, 34}

// c20T1Enum executes every block of N samples (one row or one column) over the alphabet
// {0,-2,2,-1,32,34} whose first sample is alphabet[Prefix]: six bit-planes, so that with the
// bypass style the two lowest planes are raw-coded, with samples that become significant there
// next to samples that are refined there.
func c20T1Enum(c *c20Case) mon.Result {
	a := c20EnumAlphabet
	n := c.N
	total := pow(len(a), n-1)
	coeffs := make([]int32, n)
	agg := mon.Hold()
	agg.Cell(fmt.Sprintf("t1-style=%02d", c.Style))
	for i := 0; i < total; i++ {
		coeffs[0] = a[c.Prefix]
		v, nz := i, 0
		for k := 1; k < n; k++ {
			coeffs[k] = a[v%len(a)]
			v /= len(a)
		}
		for _, x := range coeffs {
			if x != 0 {
				nz++
			}
		}
		r := c20T1Block(c, append([]int32(nil), coeffs...), nz)
		if r.V == mon.Violated {
			r.Msg = fmt.Sprintf("block %v (%dx%d): %s", coeffs, c.W, c.H, r.Msg)
			r.Sub = i + 1
			r.Cells = agg.Cells
			return r
		}
	}
	agg.Sub = total
	return agg
}

func c20T1Block(c *c20Case, coeffs []int32, nz int) mon.Result {
	in := append([]int32(nil), coeffs...)
	enc := t1.NewT1Encoder(c.W, c.H, c.Style)
	enc.SetOrientation(c.Orient)
	passes, data, err := enc.EncodeLayered(coeffs, 3*32, 0, nil, uint8(c.Style))
	if err != nil {
		return mon.Violation("t1-encode-error", err.Error())
	}
	res := mon.Hold()
	res.Cell(fmt.Sprintf("t1-style=%02d", c.Style))
	res.Cell(fmt.Sprintf("t1-hmod4=%d", c.H%4))
	for i := range in {
		if coeffs[i] != in[i] {
			res.V, res.Class, res.Msg = mon.Violated, "t1-input-modified", "EncodeLayered modified its input"
			return res
		}
	}
	if len(passes) == 0 {
		if nz != 0 {
			res.V, res.Class, res.Msg = mon.Violated, "t1-no-passes", fmt.Sprintf("no passes for a block with %d non-zero coefficients", nz)
			return res
		}
		res.NonTrivial = false
		return res
	}
	lens := make([]int, len(passes))
	for i, p := range passes {
		lens[i] = p.Rate
	}
	maxBp := passes[0].Bitplane
	res = res.With("numPasses", len(passes)).With("maxBitplane", maxBp)
	res.AddFeat("t1_passes", int64(len(passes)))
	res.AddFeat("t1_bytes", int64(len(data)))
	if len(data) == 0 {
		res.V, res.Class, res.Msg = mon.Violated, "t1-empty-data", "passes reported but no data"
		return res
	}
	dec := t1.NewT1Decoder(c.W, c.H, c.Style)
	dec.SetOrientation(c.Orient)
	if err := dec.DecodeLayeredWithMode(data, lens, maxBp, 0, c.Style&t1.CblkStyleTermAll != 0, c.Style&t1.CblkStyleReset != 0); err != nil {
		res.V, res.Class, res.Msg = mon.Violated, "t1-decode-error", err.Error()
		return res
	}
	out := dec.GetData()
	for i := range in {
		if out[i] != in[i] {
			res.V, res.Class = mon.Violated, "t1-mismatch"
			res.Msg = fmt.Sprintf("coefficient (%d,%d): decoded %d, encoded %d; passes=%d maxBitplane=%d bytes=%d", i%c.W, i/c.W, out[i], in[i], len(passes), maxBp, len(data))
			return res
		}
	}
	if c.Style == 0 {
		// the tile decoder's other entry point (a code-block without pass lengths): one
		// segment, all passes
		dec2 := t1.NewT1Decoder(c.W, c.H, c.Style)
		dec2.SetOrientation(c.Orient)
		if err := dec2.DecodeWithBitplane(data, len(passes), maxBp, 0); err != nil {
			res.V, res.Class, res.Msg = mon.Violated, "t1-decode-error", "DecodeWithBitplane: "+err.Error()
			return res
		}
		out2 := dec2.GetData()
		for i := range in {
			if out2[i] != in[i] {
				res.V, res.Class = mon.Violated, "t1-mismatch"
				res.Msg = fmt.Sprintf("DecodeWithBitplane: coefficient (%d,%d): decoded %d, encoded %d; passes=%d maxBitplane=%d bytes=%d", i%c.W, i/c.W, out2[i], in[i], len(passes), maxBp, len(data))
				return res
			}
		}
		res.AddFeat("t1_blocks_also_decoded_through_DecodeWithBitplane", 1)
	}
	return res
}

func c20DWTEnum(c *c20Case) mon.Result {
	free := c.Len
	if c.Prefix >= 0 {
		free = c.Len - 2
	}
	total := pow(5, free)
	sig := make([]int32, c.Len)
	work := make([]int32, c.Len)
	for i := 0; i < total; i++ {
		k := 0
		if c.Prefix >= 0 {
			p := c.Prefix
			for ; k < 2; k++ {
				sig[k] = int32(p%5) - 2
				p /= 5
			}
		}
		v := i
		for ; k < c.Len; k++ {
			sig[k] = int32(v%5) - 2
			v /= 5
		}
		copy(work, sig)
		wavelet.Forward53_1DWithParity(work, c.Even)
		wavelet.Inverse53_1DWithParity(work, c.Even)
		for j := range sig {
			if work[j] != sig[j] {
				return mon.Result{V: mon.Violated, Class: "dwt1d-mismatch", Msg: fmt.Sprintf("signal %v even=%v -> %v", sig, c.Even, work), NonTrivial: true, Sub: total}
			}
		}
	}
	res := mon.Result{V: mon.Held, NonTrivial: true, Sub: total}
	res.AddFeat("dwt_enum_signals", int64(total))
	return res
}

func c20DWT(c *c20Case) mon.Result {
	r := gen.New(c.CSeed)
	n := c.W * c.H
	in := make([]int32, n)
	lim := int64(1) << uint(c.MagBit)
	for i := range in {
		in[i] = int32(int64(r.U64()%uint64(2*lim+1)) - lim)
	}
	if r.Chance(1, 5) {
		for i := range in {
			if (i+i/c.W)%2 == 0 {
				in[i] = int32(lim)
			} else {
				in[i] = int32(-lim)
			}
		}
	}
	work := append([]int32(nil), in...)
	wavelet.ForwardMultilevelWithParity(work, c.W, c.H, c.Levels, c.X0, c.Y0)
	changed := false
	for i := range in {
		if work[i] != in[i] {
			changed = true
			break
		}
	}
	wavelet.InverseMultilevelWithParity(work, c.W, c.H, c.Levels, c.X0, c.Y0)
	res := mon.Hold()
	res.NonTrivial = changed || c.Levels == 0 || n == 1
	res.Cell(fmt.Sprintf("dwt-levels=%d", c.Levels))
	res.Cell(fmt.Sprintf("dwt-parity=%d%d", c.X0&1, c.Y0&1))
	for i := range in {
		if work[i] != in[i] {
			res.V, res.Class = mon.Violated, "dwt-mismatch"
			res.Msg = fmt.Sprintf("sample (%d,%d): %d != %d (w=%d h=%d levels=%d x0=%d y0=%d)", i%c.W, i/c.W, work[i], in[i], c.W, c.H, c.Levels, c.X0, c.Y0)
			res.NonTrivial = true
			return res
		}
	}
	return res
}

func c20RCT(c *c20Case) mon.Result {
	var rs, gs, bs []int32
	if c.Gen == "rct-enum" {
		for r := int32(-8); r <= 8; r++ {
			for g := int32(-8); g <= 8; g++ {
				for b := int32(-8); b <= 8; b++ {
					rs, gs, bs = append(rs, r), append(gs, g), append(bs, b)
				}
			}
		}
		ext := []int32{-(1 << 28), (1 << 28), -(1 << 28) + 1, (1 << 28) - 1, 0, 1, -1, 255, 65535, -32768, 32767}
		for _, r := range ext {
			for _, g := range ext {
				for _, b := range ext {
					rs, gs, bs = append(rs, r), append(gs, g), append(bs, b)
				}
			}
		}
	} else {
		rg := gen.New(c.CSeed)
		for i := 0; i < c.N; i++ {
			sh := uint(rg.Intn(29))
			f := func() int32 { return int32(int64(rg.U64()%(2<<sh+1)) - (1 << sh)) }
			rs, gs, bs = append(rs, f()), append(gs, f()), append(bs, f())
		}
	}
	ir, ig, ib := append([]int32(nil), rs...), append([]int32(nil), gs...), append([]int32(nil), bs...)
	y, cb, cr := colorspace.ApplyRCTToComponents(rs, gs, bs)
	r2, g2, b2 := colorspace.ApplyInverseRCTToComponents(y, cb, cr)
	res := mon.Result{V: mon.Held, NonTrivial: true}
	if c.Gen == "rct-enum" {
		res.Sub = len(ir)
	}
	res.AddFeat("rct_triples", int64(len(ir)))
	for i := range ir {
		if r2[i] != ir[i] || g2[i] != ig[i] || b2[i] != ib[i] {
			res.V, res.Class = mon.Violated, "rct-mismatch"
			res.Msg = fmt.Sprintf("(%d,%d,%d) -> (%d,%d,%d) -> (%d,%d,%d)", ir[i], ig[i], ib[i], y[i], cb[i], cr[i], r2[i], g2[i], b2[i])
			return res
		}
		// scalar API agrees
		sy, scb, scr := colorspace.RCTForward(ir[i], ig[i], ib[i])
		sr, sg, sb := colorspace.RCTInverse(sy, scb, scr)
		if sr != ir[i] || sg != ig[i] || sb != ib[i] {
			res.V, res.Class = mon.Violated, "rct-scalar-mismatch"
			res.Msg = fmt.Sprintf("(%d,%d,%d) -> (%d,%d,%d)", ir[i], ig[i], ib[i], sr, sg, sb)
			return res
		}
	}
	return res
}

// CaseTimeout: the thorough MQ enumeration batches legitimately run for many minutes each.
func (c20) CaseTimeout() time.Duration { return 3 * time.Hour }
