package props

import (
	"encoding/json"
	"fmt"

	jlsl "github.com/cocosip/go-dicom-codecs/jpegls/lossless"
	jlsn "github.com/cocosip/go-dicom-codecs/jpegls/nearlossless"

	"verif/internal/gen"
	"verif/internal/mon"
)

// C03 — JPEG-LS lossless exact reconstruction.
// C07 — JPEG-LS near-lossless: |decoded - source| <= NEAR.

type c03 struct{}
type c07 struct{}

func init() { register(c03{}); register(c07{}) }

func (c03) ID() string { return "C03" }
func (c03) Rule() string {
	return "(codec) 2..4 frames with flat areas in one Encode call of the registered .80 codec, each frame decoded by the codec and by lossless.Decode; (afterlse) the round trip right after decoding foreign streams that carry an LSE segment with other thresholds. " +
		"jpegls/lossless.Encode -> Decode, byte and geometry equality. cases: (enum) complete enumeration of all images of small geometries at P=2..4 (batched, distinct by construction); " +
		"(cell) P in 2..16 x components {1,3} x content classes (noise, two-level, alternating extremes, runs with outliers, runs ending at the line end, ramps, width/height 1) x boundary sizes; (reset) images with >64 samples per context; (long) 65535x1 / 1x65535 incl. constant (RUNindex 31); (runlimit) flat run of 1..24(40) samples, one outlier sweeping the whole range in both polarities, 1..3 rows (run-interruption code at every prefix length around its escape limit). " +
		"non-trivial: the encoder accepted the image and the decoder output was compared; distinct = distinct descriptor"
}
func (c03) Assumptions() []string {
	return []string{"self round trip only (conformance to T.87 is C14)"}
}
func (c03) Decode(raw json.RawMessage) (any, error) { return decodeInto[imgCase](raw) }

var jlsClasses = []string{"noise", "twolevel", "altext", "runs", "runend", "ramp", "checker", "impulses", "lowent", "const", "smooth", "edges", "vstripes", "rampstep"}

func (c03) Build(tier string, seed uint64) []any {
	var cs []any
	th := tier == "thorough"
	add := func(b []*imgCase) {
		for _, x := range b {
			cs = append(cs, x)
		}
	}
	type geo struct{ w, h, c, p int }
	geos := []geo{{1, 1, 1, 2}, {2, 1, 1, 2}, {1, 2, 1, 2}, {3, 1, 1, 2}, {1, 3, 1, 2}, {2, 2, 1, 2}, {3, 2, 1, 2}, {2, 3, 1, 2}, {1, 1, 3, 2}, {2, 1, 3, 2}, {1, 2, 3, 2},
		{1, 1, 1, 3}, {2, 1, 1, 3}, {1, 2, 1, 3}, {2, 2, 1, 3}, {2, 1, 1, 4}, {1, 2, 1, 4}}
	if th {
		geos = append(geos, geo{3, 3, 1, 2}, geo{4, 2, 1, 2}, geo{3, 1, 3, 2}, geo{2, 2, 1, 4}, geo{3, 2, 1, 3}, geo{2, 3, 1, 3}, geo{4, 1, 1, 4}, geo{1, 1, 3, 4})
	}
	for _, g := range geos {
		add(enumBatches("enum", g.w, g.h, g.c, g.p, 0, 4096))
	}
	per := 60
	if th {
		per = 600
	}
	sizes := []int{1, 2, 3, 4, 5, 7, 8, 9, 15, 16, 17, 31, 32, 33, 63, 64, 65}
	big := []int{255, 256, 257, 511, 512}
	i := 0
	for p := 2; p <= 16; p++ {
		for _, c := range []int{1, 3} {
			for k := 0; k < per; k++ {
				r := gen.Sub(seed, "C03", "cell", i)
				i++
				w, h := gen.Pick(r, sizes...), gen.Pick(r, sizes...)
				switch r.Intn(8) {
				case 0:
					w = 1
				case 1:
					h = 1
				case 2:
					w, h = 1+r.Intn(17), 1+r.Intn(17)
				}
				if th && r.Chance(1, 30) {
					w, h = gen.Pick(r, big...), gen.Pick(r, big...)
				}
				cl := jlsClasses[k%len(jlsClasses)]
				cs = append(cs, &imgCase{Gen: "cell", W: w, H: h, C: c, P: p, Class: cl, Aux: 1 + r.Intn(3), CSeed: r.U64()})
			}
			// (reset): enough samples per context to halve A/B/N at N=64
			r := gen.Sub(seed, "C03", "reset", p*2+c)
			cs = append(cs, &imgCase{Gen: "reset", W: 96 + r.Intn(64), H: 80 + r.Intn(40), C: c, P: p, Class: gen.Pick(r, "noise", "smooth", "lowent"), CSeed: r.U64()})
		}
	}
	// (runlimit) run interruption at every Golomb prefix length around the escape limit, at the
	// RUNindex values small run histories leave behind (see runLimitEnumerate)
	if th {
		add(runLimitBatches([]int{4, 6, 7, 8, 9, 10, 11, 12, 13, 14, 15, 16}, []int{1, 3}, []int{0}, 40, []int{1, 2, 3}))
	} else {
		add(runLimitBatches([]int{6, 8, 10, 12, 16}, []int{1}, []int{0}, 24, []int{1, 2}))
		add(runLimitBatches([]int{8, 12}, []int{3}, []int{0}, 12, []int{1}))
	}
	if th {
		add(tallRunBatches([]int{11, 12, 13, 14, 15, 16}, []int{1, 2, 3, 5, 8}, []int{0}, 96))
	} else {
		add(tallRunBatches([]int{12, 16}, []int{1, 3, 8}, []int{0}, 64))
	}
	for j, p := range []int{2, 5, 8, 12, 16} {
		if !th && j%2 == int(seed%2) {
			continue
		}
		for _, cl := range []string{"const", "runs", "noise"} {
			r := gen.Sub(seed, "C03", "long", j*10+len(cl))
			cs = append(cs, &imgCase{Gen: "long", W: 65535, H: 1, C: 1, P: p, Class: cl, CSeed: r.U64()})
			if cl != "const" {
				cs = append(cs, &imgCase{Gen: "long", W: 1, H: 65535, C: 1, P: p, Class: cl, CSeed: r.U64()})
			}
		}
		cs = append(cs, &imgCase{Gen: "long", W: 40000, H: 2, C: 3, P: p, Class: "const", CSeed: 5})
	}
	for j, g := range areaSizes(th, seed) {
		for k, p := range []int{8, 12, 16} {
			if !th && (j+k+int(seed))%2 == 0 {
				continue
			}
			r := gen.Sub(seed, "C03", "area", j*10+k)
			cs = append(cs, &imgCase{Gen: "area", W: g[0], H: g[1], C: gen.Pick(r, 1, 3), P: p, Class: gen.Pick(r, "noise", "smooth", "runs", "lowent"), CSeed: r.U64()})
		}
	}
	// (codec) 2..4 frames with flat areas in one Encode call of the registered .80 codec
	// (afterlse) the round trip right after decoding foreign streams that carry an LSE segment
	nCodec := 60
	if th {
		nCodec = 900
	}
	for k := 0; k < nCodec; k++ {
		r := gen.Sub(seed, "C03", "codec", k)
		g := "codec"
		if k%3 == 2 {
			g = "afterlse"
		}
		cs = append(cs, &imgCase{Gen: g, W: 4 + r.Intn(60), H: 4 + r.Intn(40), C: gen.Pick(r, 1, 1, 3), P: gen.Pick(r, 8, 8, 12, 16, 2+r.Intn(15)),
			Class: gen.Pick(r, "runs", "runs", "twolevel", "smooth", "edges", "lowent", "runend", "noise"), Aux: 2 + r.Intn(3), CSeed: r.U64()})
	}
	return cs
}

// c03Codec judges a multi-frame round trip through the registered .80 codec.
func c03Codec(c *imgCase) mon.Result {
	res := mon.Hold()
	ba := 8
	if c.P > 8 {
		ba = 16
	}
	cd := Codec(".80")
	info := FrameInfo(c.W, c.H, ba, c.P, c.C, 0, 0)
	var frames [][]byte
	classes := []string{c.Class, "runs", "noise", "twolevel"}
	for f := 0; f < c.Aux; f++ {
		frames = append(frames, gen.Pack(gen.Content(gen.New(gen.Mix(c.CSeed, uint64(f))), classes[f%len(classes)], c.W, c.H, c.C, c.P, 0), c.P))
	}
	enc := NewPD(info)
	if err := cd.Encode(NewPD(info, frames...), enc, nil); err != nil {
		return mon.Violation("encode-error", err.Error())
	}
	dec := NewPD(info)
	if err := cd.Decode(NewPD(info, enc.Frames...), dec, nil); err != nil {
		return mon.Violation("decode-error", err.Error())
	}
	if len(enc.Frames) != len(frames) || len(dec.Frames) != len(frames) {
		return mon.Violation("frame-count", fmt.Sprintf("%d encoded / %d decoded frames for %d inputs", len(enc.Frames), len(dec.Frames), len(frames)))
	}
	for f := range frames {
		out, dw, dh, dc, dp, err := jlsl.Decode(enc.Frames[f])
		if err != nil {
			return mon.Violation("decode-error", fmt.Sprintf("frame %d: %v", f, err))
		}
		if dw != c.W || dh != c.H || dc != c.C || dp != c.P {
			return mon.Violation("geometry", fmt.Sprintf("frame %d: decoder reports %dx%d c=%d P=%d", f, dw, dh, dc, dp))
		}
		for _, o := range [][]byte{out, dec.Frames[f]} {
			if i := firstDiff(o, frames[f]); i >= 0 {
				return mon.Violation("pixel-mismatch", fmt.Sprintf("frame %d of %d (codec-level call) differs from its source at byte %d (len %d vs %d)", f, len(frames), i, len(o), len(frames[f])))
			}
		}
		res.AddFeat("codec_frames", 1)
	}
	return res
}

func c03RT(s []int, w, h, c, p int) (class, msg string, n int) {
	px := gen.Pack(s, p)
	keep := append([]byte(nil), px...)
	enc, err := jlsl.Encode(px, w, h, c, p)
	if err != nil {
		return "encode-error", err.Error(), 0
	}
	if firstDiff(keep, px) >= 0 {
		return "source-modified", "Encode modified the caller's pixel buffer", len(enc)
	}
	out, dw, dh, dc, dp, err := jlsl.Decode(enc)
	if err != nil {
		return "decode-error", err.Error(), len(enc)
	}
	if dw != w || dh != h || dc != c || dp != p {
		return "geometry", fmt.Sprintf("decoder reports %dx%d c=%d P=%d, expected %dx%d c=%d P=%d", dw, dh, dc, dp, w, h, c, p), len(enc)
	}
	if i, g, wnt := firstSampleDiff(out, px, p); i >= 0 {
		return "pixel-mismatch", fmt.Sprintf("sample %d (x=%d y=%d comp=%d): decoded %d, source %d (len %d vs %d)", i, (i/c)%w, i/c/w, i%c, g, wnt, len(out), len(px)), len(enc)
	}
	return "", "", len(enc)
}

func (c03) Exec(d any) mon.Result {
	c := d.(*imgCase)
	res := mon.Hold()
	res.Cell(c.cell())
	res.Cell("gen=" + c.Gen)
	if c.Gen == "codec" {
		r := c03Codec(c)
		r.Cells = res.Cells
		return r
	}
	if c.Gen == "afterlse" {
		c07ForeignLSE(c)
	}
	if c.Gen == "enum" {
		var fc, fm string
		res.Sub = c.enumerate(func(s []int) bool {
			cl, msg, _ := c03RT(s, c.W, c.H, c.C, c.P)
			if cl != "" {
				fc, fm = cl, fmt.Sprintf("samples=%v: %s", s, msg)
				return false
			}
			return true
		})
		if fc != "" {
			res.V, res.Class, res.Msg = mon.Violated, fc, fm
		}
		return res
	}
	if c.Gen == "runlimit" {
		var fc, fm string
		res.Sub = c.runLimitEnumerate(func(s []int) bool {
			cl, msg, _ := c03RT(s, c.W, c.H, c.C, c.P)
			if cl != "" {
				fc, fm = cl, fmt.Sprintf("row of %d background samples then outlier %d (background %d): %s", c.Aux, s[((c.H-1)*c.W+c.Aux)*c.C], s[0], msg)
				return false
			}
			return true
		})
		if fc != "" {
			res.V, res.Class, res.Msg = mon.Violated, fc, fm
		}
		return res
	}
	res.Cell("class=" + c.Class)
	cl, msg, n := c03RT(c.samples(), c.W, c.H, c.C, c.P)
	res.AddFeat("stream_bytes", int64(n))
	if cl != "" {
		res.V, res.Class, res.Msg = mon.Violated, cl, msg
	}
	return res
}

// ---------------------------------------------------------------- C07

func (c07) ID() string { return "C07" }
func (c07) Rule() string {
	return "jpegls/nearlossless.Encode(NEAR) -> Decode; per sample |decoded-source| <= NEAR and 0 <= decoded <= 2^P-1, reported NEAR and geometry equal, NEAR=0 exact. " +
		"cases: every NEAR in 0..min(255,(2^P-1)/2) for every P in 2..16 (quick: every NEAR at P in {2,3,4,8,12,16}, sampled elsewhere) x components {1,3} x content classes (edges within NEAR of 0/MAXVAL, ramps with step 2*NEAR+1 and 2*NEAR, noise, two-level, runs with outliers); (codec) 2..4 frames with flat areas in one Encode call of the registered .81 codec (NEAR as parameter), each frame decoded by the codec and by nearlossless.Decode; (afterlse) the round trip right after decoding foreign streams that carry an LSE segment with other thresholds; (runlimit) flat run, one outlier sweeping the whole range in both polarities, NEAR 0..3(7) (run-interruption code around its escape limit). " +
		"non-trivial: encoder accepted and every sample was compared; distinct = distinct descriptor"
}
func (c07) Assumptions() []string                   { return []string{"self round trip only"} }
func (c07) Decode(raw json.RawMessage) (any, error) { return decodeInto[imgCase](raw) }

func maxNear(p int) int {
	m := ((1 << uint(p)) - 1) / 2
	if m > 255 {
		m = 255
	}
	return m
}

func (c07) Build(tier string, seed uint64) []any {
	var cs []any
	th := tier == "thorough"
	classes := []string{"noise", "edges", "rampstep", "ramp", "twolevel", "runs", "runend", "smooth", "altext", "impulses", "lowent", "checker"}
	i := 0
	for p := 2; p <= 16; p++ {
		full := th || p == 2 || p == 3 || p == 4 || p == 8 || p == 12 || p == 16
		for near := 0; near <= maxNear(p); near++ {
			if !full && !(near <= 3 || near == maxNear(p) || near%37 == int(seed%37)) {
				continue
			}
			n := 1
			if th {
				n = 30
			}
			if near <= 3 || near == maxNear(p) {
				n *= 2
			}
			for k := 0; k < n; k++ {
				r := gen.Sub(seed, "C07", "cell", i)
				i++
				cl := classes[(near+k+p)%len(classes)]
				aux := near
				if cl == "rampstep" || cl == "ramp" {
					aux = 2*near + 1 - r.Intn(2)
				}
				w, h := 1+r.Intn(64), 1+r.Intn(64)
				if r.Chance(1, 6) {
					w = 1 + r.Intn(3)
				}
				if th && r.Chance(1, 200) {
					w, h = 512, 512
				}
				c := 1
				if r.Chance(1, 3) {
					c = 3
				}
				cs = append(cs, &imgCase{Gen: "cell", W: w, H: h, C: c, P: p, Sel: near, Class: cl, Aux: aux, CSeed: r.U64()})
			}
		}
	}
	// (runlimit) run interruption around the Golomb escape limit (see runLimitEnumerate), NEAR 0..3
	var rl []*imgCase
	if th {
		rl = runLimitBatches([]int{4, 6, 8, 9, 10, 11, 12, 14, 16}, []int{1, 3}, []int{0, 1, 2, 3, 7}, 40, []int{1, 2, 3})
	} else {
		rl = runLimitBatches([]int{8, 10, 12, 16}, []int{1}, []int{0, 1, 3}, 16, []int{1, 2})
		rl = append(rl, runLimitBatches([]int{8, 12}, []int{3}, []int{1, 2}, 8, []int{1})...)
	}
	for _, x := range rl {
		cs = append(cs, x)
	}
	// (codec) 2..4 frames in one Encode call of the registered .81 codec with NEAR passed as a
	// parameter; frames with flat areas (run mode) so that adaptive state would carry over
	// (afterlse) the round trip right after nearlossless.Decode calls on foreign streams that carry
	// an LSE preset-parameters segment with other thresholds (one complete, one cut behind its SOS)
	nCodec := 60
	if th {
		nCodec = 900
	}
	for k := 0; k < nCodec; k++ {
		r := gen.Sub(seed, "C07", "codec", k)
		p := gen.Pick(r, 8, 8, 12, 16, 2+r.Intn(15))
		near := gen.Pick(r, 0, 1, 2, 3, 3, r.Intn(maxNear(p)+1))
		if near > maxNear(p) {
			near = maxNear(p)
		}
		g := "codec"
		if k%3 == 2 {
			g = "afterlse"
		}
		cs = append(cs, &imgCase{Gen: g, W: 4 + r.Intn(60), H: 4 + r.Intn(40), C: gen.Pick(r, 1, 1, 3), P: p, Sel: near,
			Class: gen.Pick(r, "runs", "runs", "twolevel", "smooth", "edges", "lowent", "runend", "noise"), Aux: 2 + r.Intn(3), CSeed: r.U64()})
	}
	for j, g := range areaSizes(th, seed) {
		for k, pn := range [][2]int{{8, 1}, {8, 3}, {12, 2}, {16, 1}, {16, 255}} {
			if !th && (j+k+int(seed))%2 == 0 {
				continue
			}
			r := gen.Sub(seed, "C07", "area", j*10+k)
			cs = append(cs, &imgCase{Gen: "area", W: g[0], H: g[1], C: gen.Pick(r, 1, 3), P: pn[0], Sel: pn[1], Class: gen.Pick(r, "noise", "smooth", "edges", "runs"), Aux: pn[1], CSeed: r.U64()})
		}
	}
	return cs
}

func (c07) Exec(d any) mon.Result {
	c := d.(*imgCase)
	res := mon.Hold()
	res.Cell(c.cell())
	res.Cell(fmt.Sprintf("P=%02d/NEAR=%03d", c.P, c.Sel))
	res.Cell("class=" + c.Class)
	near := c.Sel
	if c.Gen == "runlimit" {
		var bad *mon.Result
		res.Sub = c.runLimitEnumerate(func(s []int) bool {
			r := c07One(c, s, near)
			if r.V == mon.Violated {
				r.Msg = fmt.Sprintf("row of %d background samples then outlier %d (background %d): %s", c.Aux, s[((c.H-1)*c.W+c.Aux)*c.C], s[0], r.Msg)
				bad = &r
				return false
			}
			return true
		})
		if bad != nil {
			res.V, res.Class, res.Msg = bad.V, bad.Class, bad.Msg
		}
		return res
	}
	if c.Gen == "codec" {
		r := c07Codec(c, near)
		r.Cells = res.Cells
		return r
	}
	if c.Gen == "afterlse" {
		c07ForeignLSE(c)
	}
	r := c07One(c, c.samples(), near)
	r.Cells = res.Cells
	return r
}

// c07ForeignLSE decodes two foreign JPEG-LS streams carrying an LSE preset-parameters segment
// (ID 1) with non-default thresholds: a valid 1x1 stream (for a single sample the thresholds take no
// part in the coding) and the same stream cut right behind its scan header.  Outcomes are not judged.
func c07ForeignLSE(c *imgCase) {
	defer func() { _ = recover() }()
	r := gen.New(gen.Mix(c.CSeed, 0x15e))
	px := gen.Pack([]int{r.Intn(1 << uint(c.P))}, c.P)
	st, err := jlsn.Encode(px, 1, 1, 1, c.P, c.Sel)
	if err != nil {
		return
	}
	max := (1 << uint(c.P)) - 1
	t1 := 1 + c.Sel + r.Intn(4)
	t2 := t1 + 1 + r.Intn(6)
	t3 := t2 + 1 + r.Intn(12)
	if t3 > max {
		t1, t2, t3 = c.Sel+1, c.Sel+1, c.Sel+1
	}
	for i := 2; i+3 < len(st); i++ {
		if st[i] == 0xFF && st[i+1] == 0xDA {
			lse := []byte{0xFF, 0xF8, 0, 13, 1, byte(max >> 8), byte(max), byte(t1 >> 8), byte(t1), byte(t2 >> 8), byte(t2), byte(t3 >> 8), byte(t3), 0, 64}
			with := append(append(append([]byte(nil), st[:i]...), lse...), st[i:]...)
			soslen := int(st[i+2])<<8 | int(st[i+3])
			_, _, _, _, _, _, _ = jlsn.Decode(with)
			cut := i + len(lse) + 2 + soslen
			if cut <= len(with) {
				_, _, _, _, _, _, _ = jlsn.Decode(with[:cut])
			}
			_, _, _, _, _, _ = jlsl.Decode(with)
			return
		}
	}
}

// c07Codec judges a multi-frame round trip through the registered .81 codec.
func c07Codec(c *imgCase, near int) mon.Result {
	res := mon.Hold()
	ba := 8
	if c.P > 8 {
		ba = 16
	}
	cd := Codec(".81")
	info := FrameInfo(c.W, c.H, ba, c.P, c.C, 0, 0)
	var frames [][]byte
	var src [][]int
	classes := []string{c.Class, "runs", "noise", "twolevel"}
	for f := 0; f < c.Aux; f++ {
		s := gen.Content(gen.New(gen.Mix(c.CSeed, uint64(f))), classes[f%len(classes)], c.W, c.H, c.C, c.P, near)
		src = append(src, s)
		frames = append(frames, gen.Pack(s, c.P))
	}
	p := cd.GetDefaultParameters()
	p.SetParameter("near", near)
	enc := NewPD(info)
	if err := cd.Encode(NewPD(info, frames...), enc, p); err != nil {
		return mon.Violation("encode-error", err.Error())
	}
	if len(enc.Frames) != len(frames) {
		return mon.Violation("frame-count", fmt.Sprintf("%d encoded frames for %d inputs", len(enc.Frames), len(frames)))
	}
	dec := NewPD(info)
	if err := cd.Decode(NewPD(info, enc.Frames...), dec, nil); err != nil {
		return mon.Violation("decode-error", err.Error())
	}
	if len(dec.Frames) != len(frames) {
		return mon.Violation("frame-count", fmt.Sprintf("%d decoded frames for %d inputs", len(dec.Frames), len(frames)))
	}
	max := (1 << uint(c.P)) - 1
	for f := range frames {
		out, dw, dh, dc, dp, dn, err := jlsn.Decode(enc.Frames[f])
		if err != nil {
			return mon.Violation("decode-error", fmt.Sprintf("frame %d: %v", f, err))
		}
		if dw != c.W || dh != c.H || dc != c.C || dp != c.P {
			return mon.Violation("geometry", fmt.Sprintf("frame %d: decoder reports %dx%d c=%d P=%d, expected %dx%d c=%d P=%d", f, dw, dh, dc, dp, c.W, c.H, c.C, c.P))
		}
		if dn != near {
			return mon.Violation("near-misreported", fmt.Sprintf("frame %d: decoder reports NEAR=%d, requested %d", f, dn, near))
		}
		for _, o := range [][]byte{out, dec.Frames[f]} {
			if len(o) != len(frames[f]) {
				return mon.Violation("length", fmt.Sprintf("frame %d: decoded %d bytes, expected %d", f, len(o), len(frames[f])))
			}
			got := gen.Unpack(o, c.P)
			for i, w := range src[f] {
				e := got[i] - w
				if e < 0 {
					e = -e
				}
				if got[i] > max {
					return mon.Violation("out-of-range", fmt.Sprintf("frame %d sample %d decoded %d > MAXVAL %d", f, i, got[i], max))
				}
				if e > near {
					return mon.Violation("near-bound-exceeded", fmt.Sprintf("frame %d of %d (codec-level call) sample %d: decoded %d, source %d, |err|=%d > NEAR=%d", f, len(frames), i, got[i], w, e, near))
				}
			}
		}
		res.AddFeat("codec_frames", 1)
	}
	return res
}

// c07One judges one image.
func c07One(c *imgCase, s []int, near int) mon.Result {
	res := mon.Hold()
	px := gen.Pack(s, c.P)
	keep := append([]byte(nil), px...)
	enc, err := jlsn.Encode(px, c.W, c.H, c.C, c.P, near)
	if err != nil {
		return mon.Violation("encode-error", err.Error())
	}
	if firstDiff(keep, px) >= 0 {
		return mon.Violation("source-modified", "Encode modified the caller's pixel buffer")
	}
	out, dw, dh, dc, dp, dn, err := jlsn.Decode(enc)
	if err != nil {
		return mon.Violation("decode-error", err.Error())
	}
	if dw != c.W || dh != c.H || dc != c.C || dp != c.P {
		return mon.Violation("geometry", fmt.Sprintf("decoder reports %dx%d c=%d P=%d, expected %dx%d c=%d P=%d", dw, dh, dc, dp, c.W, c.H, c.C, c.P))
	}
	if dn != near {
		return mon.Violation("near-misreported", fmt.Sprintf("decoder reports NEAR=%d, requested %d", dn, near))
	}
	want := len(px)
	if len(out) != want {
		return mon.Violation("length", fmt.Sprintf("decoded %d bytes, expected %d", len(out), want))
	}
	got := gen.Unpack(out, c.P)
	max := (1 << uint(c.P)) - 1
	worst := 0
	for i := range s {
		e := got[i] - s[i]
		if e < 0 {
			e = -e
		}
		if got[i] > max {
			return mon.Violation("out-of-range", fmt.Sprintf("sample %d decoded %d > MAXVAL %d", i, got[i], max))
		}
		if e > near {
			lo := i - 2*c.C
			if lo < 0 {
				lo = 0
			}
			hi := i + 2*c.C + 1
			if hi > len(s) {
				hi = len(s)
			}
			return mon.Violation("near-bound-exceeded", fmt.Sprintf("sample %d (x=%d y=%d comp=%d): decoded %d, source %d, |err|=%d > NEAR=%d; source neighbourhood %v decoded %v", i, (i/c.C)%c.W, i/c.C/c.W, i%c.C, got[i], s[i], e, near, s[lo:hi], got[lo:hi]))
		}
		if e > worst {
			worst = e
		}
	}
	if worst == near && near > 0 {
		res.AddFeat("cases_reaching_bound_exactly", 1)
	}
	res.AddFeat("stream_bytes", int64(len(enc)))
	return res
}
