package props

import (
	"encoding/json"
	"fmt"

	jll "github.com/cocosip/go-dicom-codecs/jpeg/lossless"
	"github.com/cocosip/go-dicom-codecs/jpeg/lossless14sv1"

	"verif/internal/gen"
	"verif/internal/mon"
	"verif/internal/ref"
)

// C13 — JPEG Lossless conforms to T.81 (independent codec agrees).

type c13Case struct {
	Gen   string `json:"gen"`
	Dir   string `json:"dir"` // A: library encoder -> reference decoder; B: reference encoder -> library decoder
	W     int    `json:"w"`
	H     int    `json:"h"`
	C     int    `json:"c"`
	P     int    `json:"p"`
	Sel   int    `json:"sel"` // predictor 1..7, 0 auto (dir A), 8 = SV1 codec
	Class string `json:"class"`
	CSeed uint64 `json:"cseed"`
	// direction B layout
	Td          []int  `json:"td,omitempty"`
	Table       string `json:"table,omitempty"` // lum17 | optimal | random | random16
	DHTAfterSOF bool   `json:"dhtAfterSof,omitempty"`
	SplitDHT    bool   `json:"splitDht,omitempty"`
	Extra       string `json:"extra,omitempty"` // none | app | com | both
	IDs         string `json:"ids,omitempty"`   // std (1..n) | zero (0..n-1) | odd
}

type c13 struct{}

func init() { register(c13{}) }

func (c13) ID() string { return "C13" }
func (c13) Rule() string {
	return "(A) every stream of lossless.Encode (predictor 1..7 and auto) and lossless14sv1.Encode is decoded by the independent T.81 Annex H decoder (H.1.2.1 first-row/first-column rules, modulo-2^16 differences, category 16 without bits): samples and header fields must equal the source; " +
		"(B) conformant single-scan SOF3 streams from the independent encoder over predictor 1..7, P 2..16, components {1,3}, per-component table destinations 0..3, tables {Annex K luminance DC extended to 17 categories, per-image optimal (K.2), random valid canonical incl. 16-bit codes}, DHT before/after SOF, one or several DHT segments, optional APPn/COM, component ids 1..n / 0..n-1 / arbitrary: lossless.Decode (and lossless14sv1.Decode for predictor 1) must return the source. " +
		"non-trivial: both codecs ran and the samples were compared; distinct = distinct descriptor" +
		" (ffdense) 16-bit scans of 50 KB and more with a stuffed 0xFF every third byte at a drifting phase, both directions"
}
func (c13) Assumptions() []string {
	return []string{"internal/ref/t81lossless.go is a correct reading of T.81 Annex H; it is validated in the prelude against itself, against the H.1.2.1 prediction rules on hand-computed cases and its streams pass the strict marker walker"}
}
func (c13) Decode(raw json.RawMessage) (any, error) { return decodeInto[c13Case](raw) }

func (c13) Prelude() error {
	// self round trip of the reference pair over all predictors incl. 16-bit extremes
	r := gen.New(11)
	for sel := 1; sel <= 7; sel++ {
		for _, P := range []int{2, 8, 15, 16} {
			for _, nc := range []int{1, 3} {
				w, h := 1+r.Intn(9), 1+r.Intn(9)
				px := gen.Content(r, gen.Pick(r, "noise", "altext"), w, h, nc, P, 0)
				comps := deinterleave(px, nc)
				var f [17]int
				tabs := map[int]ref.HuffSpec{0: ref.LumDC17()}
				td := make([]int, nc)
				_ = f
				s, err := ref.T81LosslessEncode(comps, w, h, P, ref.T81Options{Predictor: sel, Td: td, Tables: tabs})
				if err != nil {
					return fmt.Errorf("reference encoder: %v", err)
				}
				res, err := ref.T81LosslessDecode(s)
				if err != nil {
					return fmt.Errorf("reference decoder rejects reference stream (sel %d P %d): %v", sel, P, err)
				}
				for c := range comps {
					for i := range comps[c] {
						if res.Samples[c][i] != comps[c][i] {
							return fmt.Errorf("reference pair is not an identity (sel %d P %d)", sel, P)
						}
					}
				}
				if !res.PadAllOnes {
					return fmt.Errorf("reference encoder padding")
				}
			}
		}
	}
	// hand-computed H.1.2.1 case: 2x2, P=8, predictor 7, image [[10,20],[30,40]]:
	// px: 128, Ra=10, Rb=10, (20+30)>>1=25 -> diffs -118, 10, 20, 15
	var got []int
	refForEach([][]int{{10, 20, 30, 40}}, 2, 2, 8, 7, func(c, d int) { got = append(got, d) })
	if fmt.Sprint(got) != "[-118 10 20 15]" {
		return fmt.Errorf("reference prediction rules: %v", got)
	}
	// optimal table is decodable and complete enough
	var fr [17]int
	fr[0], fr[3], fr[16] = 100, 5, 1
	if _, err := ref.T81LosslessEncode([][]int{{0, 0, 0, 0}}, 2, 2, 8, ref.T81Options{Predictor: 1, Td: []int{2}, Tables: map[int]ref.HuffSpec{2: ref.OptimalHuff(ref.T81Categories([][]int{{0, 0, 0, 0}}, 2, 2, 8, 1))}}); err != nil {
		return fmt.Errorf("optimal table: %v", err)
	}
	return nil
}

func refForEach(s [][]int, w, h, P, sel int, f func(c, d int)) {
	// exported wrapper lives in ref; re-derive through the category histogram helper is not enough, so encode+decode
	st, err := ref.T81LosslessEncode(s, w, h, P, ref.T81Options{Predictor: sel, Td: make([]int, len(s)), Tables: map[int]ref.HuffSpec{0: ref.LumDC17()}})
	if err != nil {
		return
	}
	res, err := ref.T81LosslessDecode(st)
	if err != nil {
		return
	}
	// recompute the differences from the decoded samples with the rules written out here
	half := 1 << uint(P-1)
	for y := 0; y < h; y++ {
		for x := 0; x < w; x++ {
			for c := range s {
				v := res.Samples[c]
				var px int
				switch {
				case x == 0 && y == 0:
					px = half
				case y == 0:
					px = v[x-1]
				case x == 0:
					px = v[(y-1)*w]
				default:
					ra, rb, rc := v[y*w+x-1], v[(y-1)*w+x], v[(y-1)*w+x-1]
					switch sel {
					case 1:
						px = ra
					case 2:
						px = rb
					case 3:
						px = rc
					case 4:
						px = ra + rb - rc
					case 5:
						px = ra + (rb-rc)>>1
					case 6:
						px = rb + (ra-rc)>>1
					case 7:
						px = (ra + rb) >> 1
					}
				}
				f(c, v[y*w+x]-px)
			}
		}
	}
}

func deinterleave(s []int, nc int) [][]int {
	out := make([][]int, nc)
	n := len(s) / nc
	for c := range out {
		out[c] = make([]int, n)
		for i := 0; i < n; i++ {
			out[c][i] = s[i*nc+c]
		}
	}
	return out
}

func (c13) Build(tier string, seed uint64) []any {
	var cs []any
	th := tier == "thorough"
	// every content class in every (P, components, selector) cell, also in the quick tier:
	// the double modulo-2^16 wrap needs predictor 4 at P >= 15 on alternating extremes
	per := 12
	if th {
		per = 156
	}
	classes := []string{"noise", "altext", "bands", "twolevel", "ramp", "checker", "lowent", "runs", "smooth", "impulses", "edges", "const"}
	sizes := []int{1, 2, 3, 4, 5, 7, 8, 9, 16, 17, 31, 33}
	k := 0
	for p := 2; p <= 16; p++ {
		for _, nc := range []int{1, 3} {
			for sel := 0; sel <= 8; sel++ {
				for j := 0; j < per; j++ {
					r := gen.Sub(seed, "C13", "A", k)
					k++
					w, h := gen.Pick(r, sizes...), gen.Pick(r, sizes...)
					if th && r.Chance(1, 40) {
						w, h = 64+r.Intn(200), 64+r.Intn(200)
					}
					cs = append(cs, &c13Case{Gen: "cell", Dir: "A", W: w, H: h, C: nc, P: p, Sel: sel, Class: classes[(j+sel+p)%len(classes)], CSeed: r.U64()})
				}
			}
			for sel := 1; sel <= 8; sel++ {
				for j := 0; j < per; j++ {
					r := gen.Sub(seed, "C13", "B", k)
					k++
					w, h := gen.Pick(r, sizes...), gen.Pick(r, sizes...)
					c := &c13Case{Gen: "cell", Dir: "B", W: w, H: h, C: nc, P: p, Sel: sel, Class: classes[(j+sel+p+3)%len(classes)], CSeed: r.U64()}
					for i := 0; i < nc; i++ {
						c.Td = append(c.Td, r.Intn(4))
					}
					c.Table = gen.Pick(r, "lum17", "optimal", "random", "random16")
					c.DHTAfterSOF = r.Bool()
					c.SplitDHT = r.Bool()
					c.Extra = gen.Pick(r, "none", "none", "app", "com", "both")
					c.IDs = gen.Pick(r, "std", "std", "zero", "odd")
					cs = append(cs, c)
				}
			}
		}
	}
	// deepest Huffman trees (Fibonacci-distributed categories), both directions
	for _, p := range []int{8, 16} {
		for _, sel := range []int{1, 4, 7, 8} {
			r := gen.Sub(seed, "C13", "fibcat", p*16+sel)
			cs = append(cs, &c13Case{Gen: "fibcat", Dir: "A", W: 110, H: 75, C: 1, P: p, Sel: sel, Class: "fibcat", CSeed: r.U64()})
			cs = append(cs, &c13Case{Gen: "fibcat", Dir: "B", W: 110, H: 75, C: 1, P: p, Sel: sel, Class: "fibcat", CSeed: r.U64(), Td: []int{r.Intn(4)}, Table: "optimal", IDs: "std", Extra: "none"})
		}
	}
	// pixel counts around 2^16 with moderate dimensions, both directions
	for j, g := range areaSizes(th, seed) {
		for i, sel := range []int{1, 5, 7, 8} {
			if !th && (j+i+int(seed))%2 == 0 {
				continue
			}
			r := gen.Sub(seed, "C13", "area", j*10+i)
			p := gen.Pick(r, 8, 12, 16)
			cl := gen.Pick(r, "noise", "smooth", "runs")
			cs = append(cs, &c13Case{Gen: "area", Dir: "A", W: g[0], H: g[1], C: 1, P: p, Sel: sel, Class: cl, CSeed: r.U64()})
			cs = append(cs, &c13Case{Gen: "area", Dir: "B", W: g[0], H: g[1], C: 1, P: p, Sel: sel, Class: cl, CSeed: r.U64(), Td: []int{r.Intn(4)}, Table: "optimal", IDs: "std", Extra: "none"})
		}
	}
	// (ffdense) long 16-bit scans with a stuffed 0xFF every third byte at a drifting phase, both
	// directions (library stream -> reference decoder, reference stream -> library decoders)
	nFF := 8
	if th {
		nFF = 80
	}
	for i := 0; i < nFF; i++ {
		r := gen.Sub(seed, "C13", "ffdense", i)
		w, h := 120+r.Intn(120), 120+r.Intn(120)
		sel := gen.Pick(r, 1, 1, 2, 7, 8)
		cs = append(cs, &c13Case{Gen: "ffdense", Dir: "A", W: w, H: h, C: 1, P: 16, Sel: sel, Class: "ffdense", CSeed: r.U64()})
		if sel != 8 {
			cs = append(cs, &c13Case{Gen: "ffdense", Dir: "B", W: w, H: h, C: 1, P: 16, Sel: sel, Class: "ffdense", CSeed: r.U64(), Td: []int{r.Intn(4)}, Table: "optimal", IDs: "std", Extra: "none"})
		}
	}
	return cs
}

func (c *c13Case) samples() []int {
	return gen.Content(gen.New(c.CSeed), c.Class, c.W, c.H, c.C, c.P, 2)
}

func (c13) Exec(d any) mon.Result {
	c := d.(*c13Case)
	res := mon.Hold()
	res.Cell("dir=" + c.Dir)
	res.Cell(fmt.Sprintf("P=%02d/c=%d", c.P, c.C))
	res.Cell(fmt.Sprintf("sel=%d", c.Sel))
	s := c.samples()
	comps := deinterleave(s, c.C)
	if c.Dir == "A" {
		px := gen.Pack(s, c.P)
		stream, err := c02Encode(c.Sel, px, c.W, c.H, c.C, c.P)
		if err != nil {
			return mon.Violation("encode-error", err.Error())
		}
		r, err := ref.T81LosslessDecode(stream)
		if err != nil {
			res.V, res.Class, res.Msg = mon.Violated, "reference-decoder-rejects", err.Error()
			return res
		}
		if r.W != c.W || r.H != c.H || r.NC != c.C || r.P != c.P {
			res.V, res.Class, res.Msg = mon.Violated, "header-mismatch", fmt.Sprintf("stream declares %dx%d c=%d P=%d", r.W, r.H, r.NC, r.P)
			return res
		}
		if inf, _ := ref.WalkJPEG(stream); inf != nil {
			if h := inf.CompleteDHT(); h != nil {
				res.V, res.Class, res.Msg = mon.Violated, "dht-all-ones-codeword", fmt.Sprintf("Huffman table Th=%d assigns the all-1-bits code word that T.81 C.2 reserves (BITS %v)", h.ID, h.Bits[1:])
				return res
			}
		}
		if c.Sel >= 1 && c.Sel <= 7 && r.Predictor != c.Sel || c.Sel == selSV1 && r.Predictor != 1 {
			res.V, res.Class, res.Msg = mon.Violated, "header-predictor", fmt.Sprintf("SOS Ss=%d, encoder was asked for %d", r.Predictor, c.Sel)
			return res
		}
		res = res.With("predictorUsed", r.Predictor)
		for k := range comps {
			for i := range comps[k] {
				if r.Samples[k][i] != comps[k][i] {
					res.V, res.Class = mon.Violated, "reference-decodes-other-image"
					res.Msg = fmt.Sprintf("independent T.81 decoder: component %d sample (x=%d,y=%d) = %d, source %d (predictor in SOS %d)", k, i%c.W, i/c.W, r.Samples[k][i], comps[k][i], r.Predictor)
					res = res.With("firstDiffRow", i/c.W).With("firstDiffCol", i%c.W)
					return res
				}
			}
		}
		for cat, n := range r.CatSeen {
			if n > 0 {
				res.AddFeat(fmt.Sprintf("category_%02d_seen", cat), int64(n))
			}
		}
		res.AddFeat(fmt.Sprintf("max_code_len_%02d", r.MaxCodeLen), 1)
		if !r.PadAllOnes {
			res.AddFeat("padding_not_all_ones(recorded)", 1)
		}
		return res
	}
	// ---- direction B
	res.Cell("table=" + c.Table)
	res.Cell(fmt.Sprintf("td=%v", c.Td))
	o := ref.T81Options{Predictor: c.Sel, Td: c.Td, Tables: map[int]ref.HuffSpec{}, DHTAfterSOF: c.DHTAfterSOF, SplitDHT: c.SplitDHT}
	sel := c.Sel
	if sel == selSV1 {
		sel = 1
		o.Predictor = 1
	}
	rr := gen.New(c.CSeed ^ 0x7777)
	for _, tdv := range c.Td {
		if _, ok := o.Tables[tdv]; ok {
			continue
		}
		switch c.Table {
		case "lum17":
			o.Tables[tdv] = ref.LumDC17()
		case "optimal":
			o.Tables[tdv] = ref.OptimalHuff(ref.T81Categories(comps, c.W, c.H, c.P, sel))
		case "random":
			o.Tables[tdv] = ref.RandomHuff(rr.Intn, 12)
		default:
			o.Tables[tdv] = ref.RandomHuff(rr.Intn, 16)
		}
	}
	switch c.Extra {
	case "app", "both":
		o.Extra = append(o.Extra, []byte{0xFF, 0xE1, 0, 6, 'v', 'e', 'r', 0})
	}
	switch c.Extra {
	case "com", "both":
		o.Extra = append(o.Extra, []byte{0xFF, 0xFE, 0, 5, 0xFF, 0xC3, 0x08}) // payload that looks like a marker
	}
	switch c.IDs {
	case "zero":
		for i := 0; i < c.C; i++ {
			o.CompIDs = append(o.CompIDs, i)
		}
	case "odd":
		for i := 0; i < c.C; i++ {
			o.CompIDs = append(o.CompIDs, 7+13*i)
		}
	}
	stream, err := ref.T81LosslessEncode(comps, c.W, c.H, c.P, o)
	if err != nil {
		return mon.Result{V: mon.Inconclusive, Msg: "reference encoder: " + err.Error()}
	}
	if _, err := ref.T81LosslessDecode(stream); err != nil {
		return mon.Result{V: mon.Inconclusive, Msg: "reference decoder rejects the reference stream: " + err.Error()}
	}
	var out []byte
	var dw, dh, dc, dp int
	if c.Sel == selSV1 {
		out, dw, dh, dc, dp, err = lossless14sv1.Decode(stream)
	} else {
		out, dw, dh, dc, dp, err = jll.Decode(stream)
	}
	if err != nil {
		res.V, res.Class, res.Msg = mon.Violated, "library-rejects-conformant-stream", err.Error()
		return res
	}
	if dw != c.W || dh != c.H || dc != c.C || dp != c.P {
		res.V, res.Class, res.Msg = mon.Violated, "geometry", fmt.Sprintf("library decoder reports %dx%d c=%d P=%d", dw, dh, dc, dp)
		return res
	}
	px := gen.Pack(s, c.P)
	if i, g, w := firstSampleDiff(out, px, c.P); i >= 0 {
		res.V, res.Class = mon.Violated, "library-decodes-other-image"
		res.Msg = fmt.Sprintf("sample %d (x=%d y=%d comp=%d): library decoded %d, source %d", i, (i/c.C)%c.W, i/c.C/c.W, i%c.C, g, w)
		res = res.With("firstDiffRow", i/c.C/c.W).With("firstDiffCol", (i/c.C)%c.W)
		return res
	}
	return res
}
