package props

import (
	"bytes"
	"encoding/json"
	"fmt"

	jlsl "github.com/cocosip/go-dicom-codecs/jpegls/lossless"
	jlsn "github.com/cocosip/go-dicom-codecs/jpegls/nearlossless"

	"verif/internal/gen"
	"verif/internal/mon"
	"verif/internal/ref"
)

// C14 — JPEG-LS conforms to T.87 (independent decoder agrees).

type c14 struct{}

func init() { register(c14{}) }

func (c14) ID() string { return "C14" }
func (c14) Rule() string {
	return "for every image: (1) the independent T.87 decoder (internal/ref/t87.go) decodes the stream of jpegls/lossless.Encode to the source, and the stream of nearlossless.Encode(NEAR) to exactly what nearlossless.Decode returns; (2) lossless.Encode(x) and nearlossless.Encode(x,0) are byte-identical; (3) each package's decoder decodes the other package's stream to the same result; (4) the T.87 Annex H.3 example image encodes to the published bit stream. " +
		"cases: P 2..16 x components {1 (ILV 0), 3 (ILV 2)} x NEAR {0 and a spread of values up to min(255,MAXVAL/2)} x content classes x sizes; complete enumeration of small images at P=2,3 for NEAR 0 and 1; (runlimit) flat run, one outlier sweeping the whole range in both polarities (run-interruption code around its escape limit). " +
		"non-trivial: all four codec runs happened and were compared; distinct = distinct descriptor"
}
func (c14) Assumptions() []string {
	return []string{"internal/ref/t87.go is a correct reading of T.87 Annex A with default parameters; it is pinned by the H.3 vector in the prelude; its author knows T.87 through the same public implementations the library follows (DESIGN A.3 honesty note)"}
}
func (c14) Decode(raw json.RawMessage) (any, error) { return decodeInto[imgCase](raw) }

// T.87 Annex H.3 example: 4x4, 8 bit, NEAR=0.
var h3Image = []int{0, 0, 90, 74, 68, 50, 43, 205, 64, 145, 145, 145, 100, 145, 145, 145}
var h3Scan = []byte{0xC0, 0x00, 0x00, 0x6C, 0x80, 0x20, 0x8E, 0x01, 0xC0, 0x00, 0x00, 0x57, 0x40, 0x00, 0x00, 0x6E, 0xE6, 0x00, 0x00, 0x01, 0xBC, 0x18, 0x00, 0x00, 0x05, 0xD8, 0x00, 0x00, 0x91, 0x60}

func h3Stream() []byte {
	s := []byte{0xFF, 0xD8, 0xFF, 0xF7, 0x00, 0x0B, 0x08, 0x00, 0x04, 0x00, 0x04, 0x01, 0x01, 0x11, 0x00,
		0xFF, 0xDA, 0x00, 0x08, 0x01, 0x01, 0x00, 0x00, 0x00, 0x00}
	s = append(s, h3Scan...)
	return append(s, 0xFF, 0xD9)
}

func (c14) Prelude() error {
	r, err := ref.T87Decode(h3Stream())
	if err != nil {
		return fmt.Errorf("reference T.87 decoder rejects the Annex H.3 stream: %v", err)
	}
	for i, v := range h3Image {
		if r.Samples[i] != v {
			return fmt.Errorf("reference T.87 decoder: H.3 sample %d = %d, expected %d", i, r.Samples[i], v)
		}
	}
	return nil
}

func (c14) Build(tier string, seed uint64) []any {
	var cs []any
	th := tier == "thorough"
	cs = append(cs, &imgCase{Gen: "h3", W: 4, H: 4, C: 1, P: 8, Samples: h3Image})
	add := func(b []*imgCase) {
		for _, x := range b {
			cs = append(cs, x)
		}
	}
	type geo struct{ w, h, c, p int }
	geos := []geo{{2, 1, 1, 2}, {1, 2, 1, 2}, {2, 2, 1, 2}, {3, 2, 1, 2}, {2, 1, 3, 2}, {2, 2, 1, 3}}
	if th {
		geos = append(geos, geo{3, 3, 1, 2}, geo{3, 1, 3, 2}, geo{3, 2, 1, 3}, geo{4, 1, 1, 4})
	}
	for _, g := range geos {
		for _, near := range []int{0, 1} {
			add(enumBatches("enum", g.w, g.h, g.c, g.p, near, 4096))
		}
	}
	per := 40
	if th {
		per = 300
	}
	sizes := []int{1, 2, 3, 4, 5, 7, 8, 9, 15, 16, 17, 31, 32, 33, 64, 65}
	i := 0
	for p := 2; p <= 16; p++ {
		for _, c := range []int{1, 3} {
			for k := 0; k < per; k++ {
				r := gen.Sub(seed, "C14", "cell", i)
				i++
				w, h := gen.Pick(r, sizes...), gen.Pick(r, sizes...)
				switch r.Intn(8) {
				case 0:
					w = 1
				case 1:
					h = 1
				}
				if th && r.Chance(1, 40) {
					w, h = 100+r.Intn(200), 100+r.Intn(200)
				}
				near := 0
				if k%2 == 1 {
					mn := maxNear(p)
					near = gen.Pick(r, 1, 2, 3, mn, mn/2, 1+r.Intn(mn))
					if near > mn {
						near = mn
					}
				}
				cl := jlsClasses[(k/2+p)%len(jlsClasses)]
				aux := 1 + r.Intn(3)
				if cl == "rampstep" || cl == "edges" {
					aux = 2*near + 1
				}
				cs = append(cs, &imgCase{Gen: "cell", W: w, H: h, C: c, P: p, Sel: near, Class: cl, Aux: aux, CSeed: r.U64()})
			}
			// long runs (RUNindex growth) and RESET-sized images
			r := gen.Sub(seed, "C14", "long", p*2+c)
			cs = append(cs, &imgCase{Gen: "long", W: 2000 + r.Intn(3000), H: 2, C: c, P: p, Sel: gen.Pick(r, 0, 0, 1), Class: gen.Pick(r, "const", "runs"), CSeed: r.U64()})
			cs = append(cs, &imgCase{Gen: "reset", W: 90 + r.Intn(40), H: 70 + r.Intn(40), C: c, P: p, Sel: gen.Pick(r, 0, 0, 2), Class: gen.Pick(r, "noise", "smooth", "lowent"), CSeed: r.U64()})
		}
	}
	// (runlimit) run interruption around the Golomb escape limit (see runLimitEnumerate)
	if th {
		add(runLimitBatches([]int{4, 6, 8, 9, 10, 11, 12, 14, 16}, []int{1, 3}, []int{0, 1, 3}, 40, []int{1, 2, 3}))
	} else {
		add(runLimitBatches([]int{8, 10, 12, 16}, []int{1}, []int{0, 2}, 16, []int{1, 2}))
		add(runLimitBatches([]int{8, 12}, []int{3}, []int{0, 1}, 8, []int{1}))
	}
	if th {
		add(tallRunBatches([]int{11, 12, 13, 14, 15, 16}, []int{1, 2, 3, 5, 8}, []int{0, 1}, 96))
	} else {
		add(tallRunBatches([]int{12, 16}, []int{1, 3, 8}, []int{0}, 64))
	}
	for j, g := range areaSizes(tier == "thorough", seed) {
		for i, pn := range [][2]int{{8, 0}, {12, 0}, {16, 0}, {8, 2}} {
			if tier != "thorough" && (j+i+int(seed))%2 == 0 {
				continue
			}
			r := gen.Sub(seed, "C14", "area", j*10+i)
			cs = append(cs, &imgCase{Gen: "area", W: g[0], H: g[1], C: gen.Pick(r, 1, 3), P: pn[0], Sel: pn[1], Class: gen.Pick(r, "noise", "smooth", "runs"), Aux: 1, CSeed: r.U64()})
		}
	}
	return cs
}

// c14One checks one image; near is the NEAR parameter.
func c14One(s []int, w, h, c, p, near int, res *mon.Result) (class, msg string) {
	px := gen.Pack(s, p)
	encN, err := jlsn.Encode(px, w, h, c, p, near)
	if err != nil {
		return "encode-error", "nearlossless.Encode: " + err.Error()
	}
	libN, dw, dh, dc, dp, dn, err := jlsn.Decode(encN)
	if err != nil {
		return "decode-error", "nearlossless.Decode: " + err.Error()
	}
	if dw != w || dh != h || dc != c || dp != p || dn != near {
		return "geometry", fmt.Sprintf("nearlossless.Decode reports %dx%d c=%d P=%d NEAR=%d", dw, dh, dc, dp, dn)
	}
	r, err := ref.T87Decode(encN)
	if err != nil {
		return "reference-decoder-rejects", fmt.Sprintf("nearlossless stream (NEAR=%d): %v", near, err)
	}
	wantILV := 0
	if c == 3 {
		wantILV = 2
	}
	if r.W != w || r.H != h || r.NC != c || r.P != p || r.NEAR != near || r.ILV != wantILV {
		return "header-mismatch", fmt.Sprintf("stream declares %dx%d c=%d P=%d NEAR=%d ILV=%d", r.W, r.H, r.NC, r.P, r.NEAR, r.ILV)
	}
	libS := gen.Unpack(libN, p)
	for i := range r.Samples {
		if i >= len(libS) || r.Samples[i] != libS[i] {
			return "reference-decodes-other-image", fmt.Sprintf("nearlossless stream NEAR=%d: independent T.87 decoder sample %d (x=%d y=%d comp=%d) = %d, library decoder = %d, source = %d", near, i, (i/c)%w, i/c/w, i%c, r.Samples[i], libS[i], s[i])
		}
	}
	if r.Stats.OverlongPrefix > 0 {
		return "overlong-escape-prefix", fmt.Sprintf("stream NEAR=%d P=%d: %d Golomb code words have a unary prefix longer than LIMIT-qbpp-1 zeros (T.87 A.5.3: the escape prefix is exactly LIMIT-qbpp-1 zeros followed by a one)", near, p, r.Stats.OverlongPrefix)
	}
	if r.Stats.NonCanonicalRunEnd > 0 {
		return "noncanonical-run-end", fmt.Sprintf("stream NEAR=%d P=%d: %d runs that reach the end of their line are coded as an interrupted run ('0' + remainder) instead of the '1' of T.87 A.7.1.2", near, p, r.Stats.NonCanonicalRunEnd)
	}
	if res != nil {
		if p >= 11 {
			res.AddFeat("ref_escape_codes_at_P>=11(split prefix)", int64(r.Stats.Escapes))
		}
		res.AddFeat("ref_regular_samples", int64(r.Stats.Regular))
		res.AddFeat("ref_run_samples", int64(r.Stats.RunSamples))
		res.AddFeat("ref_run_interruptions", int64(r.Stats.Interruptions))
		res.AddFeat("ref_escape_codes", int64(r.Stats.Escapes))
		res.AddFeat("ref_context_resets", int64(r.Stats.Resets))
		res.AddFeat("ref_bias_saturations", int64(r.Stats.BiasSat))
		res.AddFeat("ref_modulo_corrections", int64(r.Stats.ModuloFix))
		res.AddFeat("ref_stuffed_bytes", int64(r.Stats.StuffedBytes))
		res.AddFeat(fmt.Sprintf("ref_max_runindex_%02d", r.Stats.MaxRunIndex), 1)
	}
	if near != 0 {
		// The lossless package's decoder on a NEAR>0 stream of the other package:
		// the property's sentence is about the NEAR=0 equivalence of the two
		// packages, so this is recorded, not judged (DESIGN section 6).
		if res != nil {
			if out, _, _, _, _, err := jlsl.Decode(encN); err != nil {
				res.AddFeat("recorded_not_judged: lossless.Decode rejects NEAR>0 stream", 1)
			} else if !bytes.Equal(out, libN) {
				res.AddFeat("recorded_not_judged: lossless.Decode decodes NEAR>0 stream differently", 1)
			} else {
				res.AddFeat("recorded_not_judged: lossless.Decode agrees on NEAR>0 stream", 1)
			}
		}
		return "", ""
	}
	for i := range s {
		if r.Samples[i] != s[i] {
			return "reference-decodes-other-image", fmt.Sprintf("NEAR=0: independent decoder sample %d = %d, source %d", i, r.Samples[i], s[i])
		}
	}
	encL, err := jlsl.Encode(px, w, h, c, p)
	if err != nil {
		return "encode-error", "lossless.Encode: " + err.Error()
	}
	if !bytes.Equal(encL, encN) {
		return "encoders-differ", fmt.Sprintf("lossless.Encode and nearlossless.Encode(NEAR=0) differ at byte %d (len %d vs %d)", firstDiff(encL, encN), len(encL), len(encN))
	}
	outL, _, _, _, _, err := jlsl.Decode(encN)
	if err != nil {
		return "cross-decode-error", "lossless.Decode on a nearlossless(0) stream: " + err.Error()
	}
	if !bytes.Equal(outL, px) {
		return "cross-decode-mismatch", "lossless.Decode on a nearlossless(0) stream differs from the source"
	}
	outN, _, _, _, _, _, err := jlsn.Decode(encL)
	if err != nil {
		return "cross-decode-error", "nearlossless.Decode on a lossless stream: " + err.Error()
	}
	if !bytes.Equal(outN, px) {
		return "cross-decode-mismatch", "nearlossless.Decode on a lossless stream differs from the source"
	}
	return "", ""
}

func (c14) Exec(d any) mon.Result {
	c := d.(*imgCase)
	res := mon.Hold()
	res.Cell(c.cell())
	res.Cell("gen=" + c.Gen)
	if c.Gen == "h3" {
		px := gen.Pack(h3Image, 8)
		enc, err := jlsl.Encode(px, 4, 4, 1, 8)
		if err != nil {
			return mon.Violation("encode-error", err.Error())
		}
		inf, werr := ref.WalkJPEG(enc)
		if werr != nil {
			return mon.Violation("stream-malformed", werr.Error())
		}
		sc := inf.Scans[0]
		if !bytes.Equal(enc[sc.DataStart:sc.DataEnd], h3Scan) {
			return mon.Violation("h3-vector-mismatch", fmt.Sprintf("scan bytes %x, T.87 H.3 publishes %x", enc[sc.DataStart:sc.DataEnd], h3Scan))
		}
		cl, msg := c14One(h3Image, 4, 4, 1, 8, 0, &res)
		if cl != "" {
			return mon.Violation(cl, msg)
		}
		return res
	}
	if c.Gen == "enum" {
		var fc, fm string
		res.Sub = c.enumerate(func(s []int) bool {
			cl, msg := c14One(s, c.W, c.H, c.C, c.P, c.Sel, nil)
			if cl != "" {
				fc, fm = cl, fmt.Sprintf("samples=%v: %s", s, msg)
				return false
			}
			return true
		})
		if fc != "" {
			res.V, res.Class, res.Msg = mon.Violated, fc, fm
		}
		return res
	}
	if c.Gen == "runlimit" {
		var fc, fm string
		res.Sub = c.runLimitEnumerate(func(s []int) bool {
			cl, msg := c14One(s, c.W, c.H, c.C, c.P, c.Sel, nil)
			if cl != "" {
				fc, fm = cl, fmt.Sprintf("row of %d background samples then outlier %d (background %d): %s", c.Aux, s[((c.H-1)*c.W+c.Aux)*c.C], s[0], msg)
				return false
			}
			return true
		})
		if fc != "" {
			res.V, res.Class, res.Msg = mon.Violated, fc, fm
		}
		return res
	}
	res.Cell(fmt.Sprintf("near=%d", c.Sel))
	res.Cell("class=" + c.Class)
	cl, msg := c14One(c.samples(), c.W, c.H, c.C, c.P, c.Sel, &res)
	if cl != "" {
		res.V, res.Class, res.Msg = mon.Violated, cl, msg
	}
	return res
}
