package props

import (
	"bytes"
	"encoding/base64"
	"encoding/json"
	"fmt"
	"math"
	"os"
	"path/filepath"
	"runtime"
	"runtime/debug"
	"runtime/metrics"
	"sort"
	"strings"
	"sync"
	"sync/atomic"
	"syscall"
	"time"

	"github.com/cocosip/go-dicom/pkg/imaging/imagetypes"

	"github.com/cocosip/go-dicom-codecs/jpeg/baseline"
	"github.com/cocosip/go-dicom-codecs/jpeg/extended"
	jll "github.com/cocosip/go-dicom-codecs/jpeg/lossless"
	"github.com/cocosip/go-dicom-codecs/jpeg/lossless14sv1"
	"github.com/cocosip/go-dicom-codecs/jpeg2000"
	"github.com/cocosip/go-dicom-codecs/jpeg2000/htj2k"
	"github.com/cocosip/go-dicom-codecs/jpeg2000/t2"
	jlsl "github.com/cocosip/go-dicom-codecs/jpegls/lossless"
	jlsn "github.com/cocosip/go-dicom-codecs/jpegls/nearlossless"

	"verif/internal/gen"
	"verif/internal/mon"
	"verif/internal/ref"
)

// Shared machinery of the hostile-input properties C08 (no panics) and C09
// (bounded time/memory).  Everything runs in resource-limited children.

type hSeed struct {
	Name   string
	Family string // jpeg | j2k | rle
	Data   []byte
	W, H   int
	BA, BS int
	SPP    int
	PR     int
	TS     string // syntax of the codec-level entry point
	Header int    // length of the header region (everything before the entropy-coded data)
	Big    bool   // fixture-sized: only used by sessions
}

var (
	hSeedsOnce sync.Once
	hSeeds     []hSeed
)

func mustEnc(b []byte, err error) []byte {
	if err != nil {
		panic("seed corpus: " + err.Error())
	}
	return b
}

func hostileSeeds() []hSeed {
	hSeedsOnce.Do(func() {
		r := gen.New(0x5EED)
		img := func(w, h, c, p int, class string) []byte {
			return gen.Pack(gen.Content(r, class, w, h, c, p, 1), p)
		}
		add := func(name, fam, ts string, data []byte, w, h, ba, bs, spp int) {
			s := hSeed{Name: name, Family: fam, TS: ts, Data: data, W: w, H: h, BA: ba, BS: bs, SPP: spp}
			switch fam {
			case "jpeg":
				if inf, _ := ref.WalkJPEG(data); inf != nil && len(inf.Scans) > 0 {
					s.Header = inf.Scans[0].DataStart
				}
			case "j2k":
				if inf, _ := ref.WalkJ2K(data); inf != nil && len(inf.TileParts) > 0 {
					s.Header = inf.TileParts[0].BodyStart
				}
			case "rle":
				s.Header = 64
			}
			if s.Header == 0 || s.Header > len(data) {
				s.Header = minInt(len(data), 128)
			}
			hSeeds = append(hSeeds, s)
		}
		// ---- JPEG / JPEG-LS family
		add("baseline-g", "jpeg", ".50", mustEnc(baseline.Encode(img(9, 8, 1, 8, "smooth"), 9, 8, 1, 75)), 9, 8, 8, 8, 1)
		add("baseline-rgb", "jpeg", ".50", mustEnc(baseline.Encode(img(10, 7, 3, 8, "noise"), 10, 7, 3, 60)), 10, 7, 8, 8, 3)
		add("extended8-g", "jpeg", ".51", mustEnc(extended.Encode(img(8, 9, 1, 8, "smooth"), 8, 9, 1, 8, 80)), 8, 9, 8, 8, 1)
		add("extended12-g", "jpeg", ".51", mustEnc(extended.Encode(img(11, 6, 1, 12, "noise"), 11, 6, 1, 12, 70)), 11, 6, 16, 12, 1)
		add("lossless8-p1", "jpeg", ".57", mustEnc(jll.Encode(img(6, 5, 1, 8, "noise"), 6, 5, 1, 8, 1)), 6, 5, 8, 8, 1)
		add("lossless12-p4-rgb", "jpeg", ".57", mustEnc(jll.Encode(img(5, 4, 3, 12, "noise"), 5, 4, 3, 12, 4)), 5, 4, 16, 12, 3)
		add("lossless16-p7", "jpeg", ".57", mustEnc(jll.Encode(img(7, 3, 1, 16, "altext"), 7, 3, 1, 16, 7)), 7, 3, 16, 16, 1)
		add("sv1-8", "jpeg", ".70", mustEnc(lossless14sv1.Encode(img(6, 6, 1, 8, "smooth"), 6, 6, 1, 8)), 6, 6, 8, 8, 1)
		add("sv1-16-rgb", "jpeg", ".70", mustEnc(lossless14sv1.Encode(img(4, 5, 3, 16, "noise"), 4, 5, 3, 16)), 4, 5, 16, 16, 3)
		add("jls8", "jpeg", ".80", mustEnc(jlsl.Encode(img(9, 6, 1, 8, "runs"), 9, 6, 1, 8)), 9, 6, 8, 8, 1)
		add("jls12-rgb", "jpeg", ".80", mustEnc(jlsl.Encode(img(6, 5, 3, 12, "noise"), 6, 5, 3, 12)), 6, 5, 16, 12, 3)
		add("jlsnear8", "jpeg", ".81", mustEnc(jlsn.Encode(img(8, 8, 1, 8, "smooth"), 8, 8, 1, 8, 2)), 8, 8, 8, 8, 1)
		add("jlsnear16-rgb", "jpeg", ".81", mustEnc(jlsn.Encode(img(5, 6, 3, 16, "noise"), 5, 6, 3, 16, 3)), 5, 6, 16, 16, 3)
		// JPEG-LS preset parameters (LSE id 1 restating the defaults) ahead of the scan header:
		// the library's encoders never write the segment, its decoders parse it
		withLSE := func(st []byte, maxval, t1, t2, t3 int) []byte {
			for i := 2; i+1 < len(st); i++ {
				if st[i] == 0xFF && st[i+1] == 0xDA {
					lse := []byte{0xFF, 0xF8, 0, 13, 1, byte(maxval >> 8), byte(maxval), byte(t1 >> 8), byte(t1), byte(t2 >> 8), byte(t2), byte(t3 >> 8), byte(t3), 0, 64}
					return append(append(append([]byte(nil), st[:i]...), lse...), st[i:]...)
				}
			}
			return st
		}
		add("jls8-lse", "jpeg", ".80", withLSE(mustEnc(jlsl.Encode(img(9, 6, 1, 8, "runs"), 9, 6, 1, 8)), 255, 3, 7, 21), 9, 6, 8, 8, 1)
		add("jlsnear16-lse", "jpeg", ".81", withLSE(mustEnc(jlsn.Encode(img(5, 6, 3, 16, "noise"), 5, 6, 3, 16, 3)), 65535, 27, 82, 297), 5, 6, 16, 16, 3)
		add("ref-420-dri", "jpeg", ".50", ref.BaselineEncode(img(19, 11, 3, 8, "smooth"), 19, 11, 3, ref.BaselineOptions{Quality: 70, HY: 2, VY: 2, DRI: 1, App: "jfif", Optimise: true}), 19, 11, 8, 8, 3)
		{
			// AC coefficients after long zero runs (ZRL symbols): the highest-frequency basis
			// function plus a DC offset, at a quality that keeps it
			zr := make([]byte, 16*8)
			for y := 0; y < 8; y++ {
				for x := 0; x < 16; x++ {
					v := 128.0 + 100*math.Cos(float64(2*x+1)*7*math.Pi/16)*math.Cos(float64(2*y+1)*7*math.Pi/16)
					zr[y*16+x] = byte(v)
				}
			}
			zr12 := make([]int, 16*8)
			for i, v := range zr {
				zr12[i] = int(v) * 16
			}
			add("extended12-zrl", "jpeg", ".51", mustEnc(extended.Encode(gen.Pack(zr12, 12), 16, 8, 1, 12, 95)), 16, 8, 16, 12, 1)
			add("ref-zrl", "jpeg", ".50", ref.BaselineEncode(zr, 16, 8, 1, ref.BaselineOptions{Quality: 95, App: "jfif"}), 16, 8, 8, 8, 1)
		}
		{
			comps := deinterleave(gen.Content(r, "noise", 5, 4, 3, 10, 0), 3)
			tabs := map[int]ref.HuffSpec{1: ref.LumDC17(), 3: ref.RandomHuff(r.Intn, 16)}
			st, _ := ref.T81LosslessEncode(comps, 5, 4, 10, ref.T81Options{Predictor: 5, Td: []int{1, 3, 1}, Tables: tabs, DHTAfterSOF: true, SplitDHT: true, Extra: [][]byte{{0xFF, 0xFE, 0, 4, 'x', 'y'}}})
			add("ref-lossless-tables", "jpeg", ".57", st, 5, 4, 16, 10, 3)
		}
		// ---- JPEG 2000 family
		j2k := func(name, ts string, w, h, c, p int, f func(*jpeg2000.EncodeParams)) {
			pr := jpeg2000.DefaultEncodeParams(w, h, c, p, false)
			pr.NumLevels = 2
			f(pr)
			ba := 8
			if p > 8 {
				ba = 16
			}
			add(name, "j2k", ts, mustEnc(jpeg2000.NewEncoder(pr).Encode(img(w, h, c, p, "noise"))), w, h, ba, p, c)
		}
		j2k("j2k-rev-g", ".90", 9, 8, 1, 8, func(p *jpeg2000.EncodeParams) {})
		j2k("j2k-rev-rgb-layers", ".90", 12, 9, 3, 8, func(p *jpeg2000.EncodeParams) { p.NumLayers = 2; p.ProgressionOrder = 2 })
		j2k("j2k-irr-g12", ".91", 10, 10, 1, 12, func(p *jpeg2000.EncodeParams) { p.Lossless = false; p.Quality = 60 })
		j2k("j2k-irr-ict", ".91", 8, 8, 3, 8, func(p *jpeg2000.EncodeParams) { p.Lossless = false })
		j2k("j2k-tiled", ".90", 11, 10, 1, 8, func(p *jpeg2000.EncodeParams) { p.TileWidth, p.TileHeight = 6, 5; p.NumLevels = 1 })
		j2k("j2k-precincts", ".90", 40, 36, 1, 8, func(p *jpeg2000.EncodeParams) {
			p.PrecinctWidth, p.PrecinctHeight = 32, 32
			p.CodeBlockWidth, p.CodeBlockHeight = 8, 8
			p.ProgressionOrder = 3
		})
		j2k("j2k-custommct", ".92", 6, 6, 3, 8, func(p *jpeg2000.EncodeParams) {
			m := [][]float64{{1, 0, 0}, {0, 1, 0}, {0, 0, 1}}
			p.MCTMatrix, p.InverseMCTMatrix, p.MCTOffsets = m, m, []int32{1, 2, 3}
		})
		j2k("j2k-binding", ".92", 6, 5, 2, 8, func(p *jpeg2000.EncodeParams) {
			p.MCTBindings = []jpeg2000.MCTBindingParams{{ComponentIDs: []uint16{0, 1}, Matrix: [][]float64{{1, 0}, {1, 1}}, Inverse: [][]float64{{1, 0}, {-1, 1}}, ElementType: 1, Offsets: []int32{2, 5}}}
		})
		j2k("j2k-roi", ".90", 12, 12, 1, 8, func(p *jpeg2000.EncodeParams) {
			p.ROI = &jpeg2000.ROIParams{X0: 2, Y0: 2, Width: 5, Height: 5, Shift: 4}
		})
		{
			// the decoder's private comment payloads: an inverse component transform
			// (JP2MCT, version 1, rows, cols, flag, float32 matrix) ahead of the first tile-part
			pr := jpeg2000.DefaultEncodeParams(7, 6, 3, 8, false)
			pr.NumLevels, pr.EnableMCT = 1, false
			st := mustEnc(jpeg2000.NewEncoder(pr).Encode(img(7, 6, 3, 8, "noise")))
			if inf, _ := ref.WalkJ2K(st); inf != nil && len(inf.TileParts) > 0 {
				pay := []byte{'J', 'P', '2', 'M', 'C', 'T', 1, 0, 3, 0, 3, 0}
				for i := 0; i < 9; i++ {
					v := uint32(0)
					if i%4 == 0 {
						v = 0x3F800000 // 1.0
					}
					pay = append(pay, byte(v>>24), byte(v>>16), byte(v>>8), byte(v))
				}
				seg := append([]byte{0xFF, 0x64, byte((len(pay) + 4) >> 8), byte(len(pay) + 4), 0, 0}, pay...)
				o := inf.TileParts[0].Offset
				st = append(append(append([]byte(nil), st[:o]...), seg...), st[o:]...)
			}
			add("j2k-com-mct", "j2k", ".90", st, 7, 6, 8, 8, 3)
		}
		{
			// marker segments the library parses but its encoder never writes: COC, QCC and POC,
			// once in the main header and once in the first tile-part header (all restating
			// what COD/QCD already say, so the image is unchanged)
			pr := jpeg2000.DefaultEncodeParams(10, 9, 3, 8, false)
			pr.NumLevels, pr.NumLayers = 2, 2
			st := mustEnc(jpeg2000.NewEncoder(pr).Encode(img(10, 9, 3, 8, "noise")))
			if inf, _ := ref.WalkJ2K(st); inf != nil && len(inf.TileParts) > 0 && inf.COD != nil && inf.QCD != nil {
				cd := inf.COD
				coc := []byte{0xFF, 0x53, 0, 9, 1, 0, byte(cd.Levels), byte(cd.XCB - 2), byte(cd.YCB - 2), byte(cd.Style), byte(cd.Transform)}
				qcc := []byte{0xFF, 0x5D, 0, 0, 2, byte(inf.QCD.Sqcd)}
				for _, e := range inf.QCD.Eps {
					qcc = append(qcc, byte(e<<3))
				}
				qcc[2], qcc[3] = byte((len(qcc)-2)>>8), byte(len(qcc)-2)
				poc := []byte{0xFF, 0x5F, 0, 9, 0, 0, 0, byte(cd.Layers), byte(cd.Levels + 1), 3, byte(cd.Prog)}
				extra := append(append(append([]byte(nil), coc...), qcc...), poc...)
				o := inf.TileParts[0].Offset
				main := append(append(append([]byte(nil), st[:o]...), extra...), st[o:]...)
				add("j2k-coc-qcc-poc", "j2k", ".90", main, 10, 9, 8, 8, 3)
				tp := inf.TileParts[0]
				th := append([]byte(nil), st[:tp.Offset+12]...)
				if tp.Psot != 0 {
					ps := tp.Psot + len(extra)
					th[tp.Offset+6], th[tp.Offset+7], th[tp.Offset+8], th[tp.Offset+9] = byte(ps>>24), byte(ps>>16), byte(ps>>8), byte(ps)
				}
				th = append(append(th, extra...), st[tp.Offset+12:]...)
				add("j2k-tilehdr-markers", "j2k", ".90", th, 10, 9, 8, 8, 3)
			}
		}
		j2k("ht-g16", ".201", 9, 9, 1, 16, func(p *jpeg2000.EncodeParams) {
			p.HTJ2KMode, p.ProgressionOrder = true, 2
			p.BlockEncoderFactory = func(w, h int) jpeg2000.BlockEncoder { return htj2k.NewHTEncoder(w, h) }
		})
		j2k("ht-rgb8", ".201", 8, 7, 3, 8, func(p *jpeg2000.EncodeParams) {
			p.HTJ2KMode, p.ProgressionOrder = true, 2
			p.BlockEncoderFactory = func(w, h int) jpeg2000.BlockEncoder { return htj2k.NewHTEncoder(w, h) }
		})
		// third-party fixtures (sessions only)
		if m, err := loadHTManifest(); err == nil {
			for i, f := range m.Fixtures {
				if i > 3 {
					break
				}
				for _, st := range f.Codestreams {
					if b, err := os.ReadFile(filepath.Join(RepoDir, "test-data/htj2k/interop", st.Path)); err == nil && len(b) <= 65536 {
						s := hSeed{Name: "fixture-" + f.Name, Family: "j2k", TS: ".201", Data: b, W: f.Width, H: f.Height, BA: f.BitsAllocated, BS: f.BitsAllocated, SPP: f.Components, Big: true}
						if inf, _ := ref.WalkJ2K(b); inf != nil && len(inf.TileParts) > 0 {
							s.Header = inf.TileParts[0].BodyStart
						}
						hSeeds = append(hSeeds, s)
					}
					break
				}
			}
		}
		// ---- RLE
		rleSeed := func(name string, w, h, ba, spp, planar int) {
			info := FrameInfo(w, h, ba, ba, spp, 0, planar)
			fr := gen.PackN(gen.Content(r, "runs", w, h, spp, ba, 0), ba/8)
			enc := NewPD(info)
			if err := Codec("rle").Encode(NewPD(info, fr), enc, nil); err != nil {
				panic(err)
			}
			add(name, "rle", "rle", enc.Frames[0], w, h, ba, ba, spp)
		}
		rleSeed("rle-8", 7, 5, 8, 1, 0)
		rleSeed("rle-16", 6, 4, 16, 1, 0)
		rleSeed("rle-rgb", 5, 5, 8, 3, 1)
	})
	return hSeeds
}

// ---- entry points

type hEntry struct {
	Name string
	Run  func(data []byte, fi *imagetypes.FrameInfo) (sig string)
	// Rare entries share their whole decode path with another entry (the .91/.92/.93
	// codecs with .90, .202/.203 with .201): they get every 8th input only.
	Rare bool
}

func errSig(err error) string {
	s := err.Error()
	var b strings.Builder
	for _, c := range s {
		if c >= '0' && c <= '9' {
			continue
		}
		b.WriteRune(c)
	}
	o := b.String()
	if len(o) > 60 {
		o = o[:60]
	}
	return "E:" + o
}

func okSig(w, h, c, n int) string { return fmt.Sprintf("ok:%dx%dx%d/%d", w, h, c, n) }

func codecEntry(ts string) hEntry {
	return hEntry{Name: "codec" + ts, Run: func(d []byte, fi *imagetypes.FrameInfo) string {
		out := NewPD(fi)
		if err := Codec(ts).Decode(NewPD(fi, d), out, nil); err != nil {
			return errSig(err)
		}
		n := 0
		if len(out.Frames) > 0 {
			n = len(out.Frames[0])
		}
		return fmt.Sprintf("ok:%d/%d", len(out.Frames), n)
	}}
}

var hEntries = map[string][]hEntry{}

func init() {
	jpegFns := []hEntry{
		{Name: "baseline.Decode", Run: func(d []byte, _ *imagetypes.FrameInfo) string {
			p, w, h, c, err := baseline.Decode(d)
			if err != nil {
				return errSig(err)
			}
			return okSig(w, h, c, len(p))
		}},
		{Name: "extended.Decode", Run: func(d []byte, _ *imagetypes.FrameInfo) string {
			p, w, h, c, _, err := extended.Decode(d)
			if err != nil {
				return errSig(err)
			}
			return okSig(w, h, c, len(p))
		}},
		{Name: "extended.DecodeSimple", Run: func(d []byte, _ *imagetypes.FrameInfo) string {
			p, w, h, c, _, err := extended.DecodeSimple(d)
			if err != nil {
				return errSig(err)
			}
			return okSig(w, h, c, len(p))
		}},
		{Name: "lossless.Decode", Run: func(d []byte, _ *imagetypes.FrameInfo) string {
			p, w, h, c, _, err := jll.Decode(d)
			if err != nil {
				return errSig(err)
			}
			return okSig(w, h, c, len(p))
		}},
		{Name: "lossless14sv1.Decode", Run: func(d []byte, _ *imagetypes.FrameInfo) string {
			p, w, h, c, _, err := lossless14sv1.Decode(d)
			if err != nil {
				return errSig(err)
			}
			return okSig(w, h, c, len(p))
		}},
		{Name: "jpegls/lossless.Decode", Run: func(d []byte, _ *imagetypes.FrameInfo) string {
			p, w, h, c, _, err := jlsl.Decode(d)
			if err != nil {
				return errSig(err)
			}
			return okSig(w, h, c, len(p))
		}},
		{Name: "jpegls/nearlossless.Decode", Run: func(d []byte, _ *imagetypes.FrameInfo) string {
			p, w, h, c, _, _, err := jlsn.Decode(d)
			if err != nil {
				return errSig(err)
			}
			return okSig(w, h, c, len(p))
		}},
	}
	for _, ts := range []string{".50", ".51", ".57", ".70", ".80", ".81"} {
		jpegFns = append(jpegFns, codecEntry(ts))
	}
	hEntries["jpeg"] = jpegFns
	j2kRun := func(ht bool) func([]byte, *imagetypes.FrameInfo) string {
		return func(d []byte, _ *imagetypes.FrameInfo) string {
			dec := jpeg2000.NewDecoder()
			if ht {
				dec.SetBlockDecoderFactory(func(w, h int, _ int) t2.BlockDecoder { return htj2k.NewHTDecoder(w, h) })
			}
			if err := dec.Decode(d); err != nil {
				return errSig(err)
			}
			p := dec.GetPixelData()
			return okSig(dec.Width(), dec.Height(), dec.Components(), len(p))
		}
	}
	j2kFns := []hEntry{{Name: "jpeg2000.Decoder", Run: j2kRun(false)}, {Name: "jpeg2000.Decoder+HT", Run: j2kRun(true)}}
	for _, ts := range []string{".90", ".91", ".92", ".93", ".201", ".202", ".203"} {
		e := codecEntry(ts)
		e.Rare = ts != ".90" && ts != ".201"
		j2kFns = append(j2kFns, e)
	}
	hEntries["j2k"] = j2kFns
	hEntries["rle"] = []hEntry{codecEntry("rle")}
}

// ---- cases

type hCase struct {
	Kind  string `json:"kind"` // trunc | sweep | field | havoc | session | single | rlefi | fill | sofmatrix | sizshift | j2kamp
	Seed  string `json:"seed,omitempty"`
	From  int    `json:"from,omitempty"` // sweep/field: first offset
	To    int    `json:"to,omitempty"`
	N     int    `json:"n,omitempty"`
	MSeed uint64 `json:"mseed,omitempty"`
	// single
	Entry string `json:"entry,omitempty"`
	Data  string `json:"data,omitempty"` // base64
	FI    []int  `json:"fi,omitempty"`   // w,h,ba,bs,spp,pr,planar
}

func seedByName(n string) *hSeed {
	ss := hostileSeeds()
	for i := range ss {
		if ss[i].Name == n {
			return &ss[i]
		}
	}
	return nil
}

var sweepQuick = []byte{0, 1, 2, 4, 8, 16, 17, 64, 127, 128, 255}
var field16Vals = []int{0, 1, 2, 3, 0x7FFF, 0x8000, 0xFFFF, 0x00FF, 0xFF00, 0x0100}
var fiVals = []int{0, 1, 2, 3, 7, 8, 9, 15, 16, 17, 24, 32, 33, 64, 255, 256, 32767, 32768, 65535}

func hostileBuild(id, tier string, seed uint64) []any {
	var cs []any
	th := tier == "thorough"
	// development aid (tools/mutsweep.py): restrict the run to the seeds of one family
	onlyFam := os.Getenv("VERIF_HOSTILE_FAMILY")
	for _, s := range hostileSeeds() {
		if s.Big || (onlyFam != "" && s.Family != onlyFam) {
			continue
		}
		cs = append(cs, &hCase{Kind: "trunc", Seed: s.Name})
		lim := minInt(len(s.Data), s.Header+32)
		step := 16
		for o := 0; o < lim; o += step {
			cs = append(cs, &hCase{Kind: "sweep", Seed: s.Name, From: o, To: minInt(o+step, lim)})
			cs = append(cs, &hCase{Kind: "field", Seed: s.Name, From: o, To: minInt(o+step, lim)})
		}
		if s.Family == "rle" {
			cs = append(cs, &hCase{Kind: "rlefi", Seed: s.Name})
		}
		cs = append(cs, &hCase{Kind: "fill", Seed: s.Name})
		if s.Family == "jpeg" {
			cs = append(cs, &hCase{Kind: "sofmatrix", Seed: s.Name, N: map[bool]int{false: 3, true: 4}[th]})
		}
		if s.Family == "j2k" {
			cs = append(cs, &hCase{Kind: "sizshift", Seed: s.Name})
			// header-claimed work vs. data actually present: quick takes three seeds
			if th || s.Name == "j2k-rev-g" || s.Name == "j2k-precincts" || s.Name == "ht-g16" {
				for prog := 0; prog < 5; prog++ {
					cs = append(cs, &hCase{Kind: "j2kamp", Seed: s.Name, From: prog})
				}
			}
		}
	}
	nHavoc, nSess, sessN := 3, 1, 1200
	if th {
		nHavoc, nSess, sessN = 60, 12, 4000
	}
	for si, s := range hostileSeeds() {
		if onlyFam != "" && s.Family != onlyFam {
			continue
		}
		for i := 0; i < nHavoc && !s.Big; i++ {
			cs = append(cs, &hCase{Kind: "havoc", Seed: s.Name, N: 400, MSeed: gen.Mix(seed, gen.HashStr(id), uint64(si), uint64(i))})
		}
		ns := nSess
		if s.Big {
			ns = 1
		}
		for i := 0; i < ns; i++ {
			n := sessN
			if s.Big {
				n = sessN / 8
			}
			cs = append(cs, &hCase{Kind: "session", Seed: s.Name, N: n, MSeed: gen.Mix(seed, gen.HashStr(id), 77, uint64(si), uint64(i))})
		}
	}
	// frozen crashers found at development time
	if ents, err := os.ReadDir(filepath.Join(mon.Root, "corpus")); err == nil {
		for _, e := range ents {
			if strings.HasSuffix(e.Name(), ".json") {
				if b, err := os.ReadFile(filepath.Join(mon.Root, "corpus", e.Name())); err == nil {
					var c hCase
					if json.Unmarshal(b, &c) == nil && c.Kind == "single" {
						cc := c
						cs = append(cs, &cc)
					}
				}
			}
		}
	}
	return cs
}

// ---- mutation

func havocMutate(r *gen.Rand, src []byte, others []hSeed) []byte {
	d := append([]byte(nil), src...)
	switch r.Intn(9) {
	case 0, 1, 2: // k random byte changes
		k := 1 + r.Intn(8)
		for i := 0; i < k && len(d) > 0; i++ {
			p := r.Intn(len(d))
			switch r.Intn(4) {
			case 0:
				d[p] = byte(r.Intn(256))
			case 1:
				d[p] ^= 1 << uint(r.Intn(8))
			case 2:
				d[p] = gen.Pick(r, byte(0), 0xFF, 0x7F, 0x80, 1)
			default:
				d[p] += byte(r.Intn(5)) - 2
			}
		}
	case 3: // 16/32-bit field edit
		if len(d) >= 4 {
			p := r.Intn(len(d) - 3)
			v := gen.Pick(r, 0, 1, 2, 0x7FFF, 0x8000, 0xFFFF, len(d), len(d)-p)
			d[p], d[p+1] = byte(v>>8), byte(v)
			if r.Bool() {
				d[p+2], d[p+3] = byte(r.Intn(256)), byte(r.Intn(256))
			}
		}
	case 4: // block delete
		if len(d) > 2 {
			a := r.Intn(len(d))
			n := 1 + r.Intn(minInt(32, len(d)-a))
			d = append(d[:a], d[a+n:]...)
		}
	case 5: // block duplicate / insert
		if len(d) > 2 {
			a := r.Intn(len(d))
			n := 1 + r.Intn(minInt(32, len(d)-a))
			b := r.Intn(len(d))
			ins := append([]byte(nil), d[a:a+n]...)
			d = append(d[:b], append(ins, d[b:]...)...)
		}
	case 6: // splice with another seed
		o := others[r.Intn(len(others))].Data
		if len(d) > 2 && len(o) > 2 {
			a, b := r.Intn(len(d)), r.Intn(len(o))
			d = append(d[:a:a], o[b:]...)
		}
	case 7: // truncate
		if len(d) > 1 {
			d = d[:r.Intn(len(d))]
		}
	default: // random body behind a valid prefix
		if len(d) > 4 {
			a := 2 + r.Intn(minInt(len(d)-2, 64))
			for i := a; i < len(d); i++ {
				d[i] = byte(r.Intn(256))
			}
		}
	}
	if len(d) > 65536 {
		d = d[:65536]
	}
	return d
}

// ---- execution of one input through the entry points of its family

type hCtx struct {
	measure bool
	res     *mon.Result
	seenSig map[string]bool // signatures of violations already reported by this case
	calls   int
}

// declaredSamples parses the first frame header independently: S = w*h*components (0 = nothing declared).
func declaredSamples(d []byte) (S int64, declared bool) {
	if len(d) >= 4 && d[0] == 0xFF && d[1] == 0x4F {
		// J2K: SIZ must follow SOC
		if len(d) >= 2+2+2+36 && d[2] == 0xFF && d[3] == 0x51 {
			seg := d[6:]
			xs, ys, xo, yo := int64(be32u(seg[2:])), int64(be32u(seg[6:])), int64(be32u(seg[10:])), int64(be32u(seg[14:]))
			cs := int64(seg[34])<<8 | int64(seg[35])
			w, h := xs-xo, ys-yo
			if w < 0 {
				w = 0
			}
			if h < 0 {
				h = 0
			}
			return satMul(satMul(w, h), cs), true
		}
		return 0, false
	}
	{
		// JPEG family (whatever the stream starts with: readers tolerate fill bytes
		// before SOI).  Decoders differ in which frame header they honour when a
		// (malformed) stream carries several - baseline skips an SOF3 and uses a later
		// SOF0, some keep scanning after SOS/EOI - so S is the LARGEST size declared by
		// any frame-header-like marker in the stream.  That can only move inputs out of
		// the domain, never raise an alarm about the choice of header.
		var best int64
		found := false
		for i := 2; i+10 <= len(d); i++ {
			if d[i] != 0xFF {
				continue
			}
			m := d[i+1]
			if (m >= 0xC0 && m <= 0xCF && m != 0xC4 && m != 0xC8 && m != 0xCC) || m == 0xF7 {
				seg := d[i+4:]
				h, w, n := int64(seg[1])<<8|int64(seg[2]), int64(seg[3])<<8|int64(seg[4]), int64(seg[5])
				found = true
				if v := w * h * n; v > best {
					best = v
				}
				// a zero height may be defined later by DNL: assume the maximum
				if h == 0 {
					if v := w * 65535 * n; v > best {
						best = v
					}
				}
			}
		}
		return best, found
	}
}

func maxU32(a, b uint32) uint32 {
	if a > b {
		return a
	}
	return b
}

func be32u(b []byte) uint32 {
	return uint32(b[0])<<24 | uint32(b[1])<<16 | uint32(b[2])<<8 | uint32(b[3])
}
func satMul(a, b int64) int64 {
	if a == 0 || b == 0 {
		return 0
	}
	if a > (1<<62)/b {
		return 1 << 62
	}
	return a * b
}

const (
	c09MaxS      = 1 << 22
	c09BaseBytes = 512 << 20
	c09TimeLimit = 10 * time.Second
)

var allocSample = []metrics.Sample{{Name: "/gc/heap/allocs:bytes"}}
var liveSample = []metrics.Sample{{Name: "/memory/classes/heap/objects:bytes"}}

func heapAllocs() uint64 {
	metrics.Read(allocSample)
	return allocSample[0].Value.Uint64()
}

func threadCPU() time.Duration {
	var ru syscall.Rusage
	const rusageThread = 1
	if err := syscall.Getrusage(rusageThread, &ru); err != nil {
		return 0
	}
	return time.Duration(ru.Utime.Nano() + ru.Stime.Nano())
}

// peak live-heap sampler (C09)
var (
	samplerOnce sync.Once
	peakLive    atomic.Uint64
)

func startSampler() {
	samplerOnce.Do(func() {
		go func() {
			s := []metrics.Sample{{Name: "/memory/classes/heap/objects:bytes"}}
			for {
				time.Sleep(time.Millisecond)
				metrics.Read(s)
				v := s[0].Value.Uint64()
				for {
					old := peakLive.Load()
					if v <= old || peakLive.CompareAndSwap(old, v) {
						break
					}
				}
			}
		}()
	})
}

func singleDesc(entry string, data []byte, fi *imagetypes.FrameInfo) json.RawMessage {
	c := hCase{Kind: "single", Entry: entry, Data: base64.StdEncoding.EncodeToString(data)}
	if fi != nil {
		c.FI = []int{int(fi.Width), int(fi.Height), int(fi.BitsAllocated), int(fi.BitsStored), int(fi.SamplesPerPixel), int(fi.PixelRepresentation), int(fi.PlanarConfiguration)}
	}
	b, _ := json.Marshal(&c)
	return b
}

func (x *hCtx) violation(class, msg, stack string, entry string, data []byte, fi *imagetypes.FrameInfo) {
	if x.seenSig[class] {
		return
	}
	x.seenSig[class] = true
	v := mon.Result{V: mon.Violated, Class: class, Msg: msg, NonTrivial: true, Stack: stack, Replay: singleDesc(entry, data, fi)}
	v = v.With("entry", entry).With("inputLen", len(data))
	if x.res.V != mon.Violated {
		keepFeat, keepCells, sub := x.res.Feat, x.res.Cells, x.res.Sub
		*x.res = v
		x.res.Feat, x.res.Cells, x.res.Sub = keepFeat, keepCells, sub
	} else if len(x.res.More) < 40 {
		x.res.More = append(x.res.More, v)
	}
}

// call runs one entry point on one input and judges it.
func (x *hCtx) call(e hEntry, data []byte, fi *imagetypes.FrameInfo, S int64, inDomain bool) (sig string) {
	x.calls++
	mon.Beat()
	mon.RecordInput(e.Name+fiMeta(fi), data)
	var a0 uint64
	var t0 time.Time
	var c0 time.Duration
	if x.measure {
		runtime.LockOSThread()
		defer runtime.UnlockOSThread()
		a0 = heapAllocs()
		peakLive.Store(0)
		t0 = time.Now()
		c0 = threadCPU()
	}
	func() {
		defer func() {
			if r := recover(); r != nil {
				st := string(debug.Stack())
				sig = "P:" + mon.PanicSig(fmt.Sprint(r), st)
				if !x.measure {
					x.violation("panic:"+mon.PanicSig(fmt.Sprint(r), st), fmt.Sprintf("%s panicked on a %d-byte input: %v", e.Name, len(data), r), st, e.Name, data, fi)
				}
			}
		}()
		sig = e.Run(data, fi)
	}()
	if x.measure {
		cpu := threadCPU() - c0
		wall := time.Since(t0)
		alloc := heapAllocs() - a0
		if !inDomain {
			x.res.AddFeat("calls_out_of_domain(declared size > 2^22 or input > 64 KiB)", 1)
			return
		}
		budget := uint64(c09BaseBytes) + 64*uint64(S)
		switch {
		case cpu > c09TimeLimit:
			x.violation("time:"+e.Name, fmt.Sprintf("%s used %.1fs of thread CPU time (wall %.1fs) on a %d-byte input declaring %d samples", e.Name, cpu.Seconds(), wall.Seconds(), len(data), S), "", e.Name, data, fi)
		case wall > c09TimeLimit:
			x.res.AddFeat("inconclusive_wall_over_10s_cpu_under", 1)
		}
		if alloc > budget {
			if pk := peakLive.Load(); pk > budget {
				x.violation("memory:"+e.Name, fmt.Sprintf("%s held %d MiB of live heap (budget %d MiB = 512 MiB + 64*S, S=%d) on a %d-byte input", e.Name, pk>>20, budget>>20, S, len(data)), "", e.Name, data, fi)
			} else {
				x.res.AddFeat("inconclusive_totalalloc_over_budget_peak_unknown", 1)
			}
		}
		// histogram of the cost actually observed
		x.res.AddFeat(fmt.Sprintf("alloc_bucket_2^%02d", bitLen64(alloc)), 1)
		if wall > 100*time.Millisecond {
			x.res.AddFeat("calls_over_100ms", 1)
		}
	}
	return sig
}

func bitLen64(v uint64) int {
	n := 0
	for v > 0 {
		n++
		v >>= 1
	}
	return n
}

func fiMeta(fi *imagetypes.FrameInfo) string {
	if fi == nil {
		return ""
	}
	return fmt.Sprintf("|%d,%d,%d,%d,%d,%d,%d", fi.Width, fi.Height, fi.BitsAllocated, fi.BitsStored, fi.SamplesPerPixel, fi.PixelRepresentation, fi.PlanarConfiguration)
}

func parseCur(cur []byte) (entry string, fi []int, data []byte) {
	i := bytes.IndexByte(cur, '\n')
	if i < 0 {
		return "", nil, nil
	}
	meta := string(cur[:i])
	data = cur[i+1:]
	parts := strings.SplitN(meta, "|", 2)
	entry = parts[0]
	if len(parts) == 2 {
		for _, f := range strings.Split(parts[1], ",") {
			var v int
			fmt.Sscanf(f, "%d", &v)
			fi = append(fi, v)
		}
	}
	return
}

// runInput feeds one mutated input to every entry point of the seed's family.
func (x *hCtx) runInput(s *hSeed, data []byte, fiOverride *imagetypes.FrameInfo) string {
	fi := fiOverride
	if fi == nil {
		fi = FrameInfo(s.W, s.H, s.BA, s.BS, s.SPP, s.PR, 0)
	}
	S, _ := declaredSamples(data)
	inDomain := len(data) <= 65536
	if s.Family == "rle" {
		S = int64(fi.Width) * int64(fi.Height) * int64(fi.SamplesPerPixel) * int64((int(fi.BitsAllocated)+7)/8)
	}
	if S > c09MaxS {
		inDomain = false
	}
	if S > c09MaxS {
		// a legitimately huge declared image: not executed (it would only exercise
		// the allocator and kill the child); counted, out of C09's domain anyway
		x.res.AddFeat("inputs_not_executed(declared size > 2^22 samples)", 1)
		return "skipped"
	}
	var sigs []string
	rare := gen.HashBytes(data)%8 == 0
	for _, e := range hEntries[s.Family] {
		if e.Rare && !rare {
			continue
		}
		sigs = append(sigs, x.call(e, data, fi, S, inDomain))
	}
	return strings.Join(sigs, ";")
}

func hostileExec(id string, measure bool, d any) mon.Result {
	c := d.(*hCase)
	res := mon.Result{V: mon.Held, NonTrivial: true}
	x := &hCtx{measure: measure, res: &res, seenSig: map[string]bool{}}
	if measure {
		startSampler()
	}
	res.Cell("kind=" + c.Kind)
	if c.Kind == "single" {
		data, err := base64.StdEncoding.DecodeString(c.Data)
		if err != nil {
			return mon.Result{V: mon.Inconclusive, Msg: "bad base64"}
		}
		var fi *imagetypes.FrameInfo
		if len(c.FI) == 7 {
			fi = FrameInfo(c.FI[0], c.FI[1], c.FI[2], c.FI[3], c.FI[4], c.FI[5], c.FI[6])
			fi.BitsStored, fi.HighBit = uint16(c.FI[3]), uint16(c.FI[3]-1)
		} else {
			fi = FrameInfo(8, 8, 8, 8, 1, 0, 0)
		}
		S, _ := declaredSamples(data)
		if strings.HasPrefix(c.Entry, "codecrle") {
			S = int64(fi.Width) * int64(fi.Height) * int64(fi.SamplesPerPixel) * int64((int(fi.BitsAllocated)+7)/8)
		}
		for _, fam := range []string{"jpeg", "j2k", "rle"} {
			for _, e := range hEntries[fam] {
				if e.Name == c.Entry {
					x.call(e, data, fi, S, len(data) <= 65536 && S <= c09MaxS)
				}
			}
		}
		res.Sub = 0
		return res
	}
	s := seedByName(c.Seed)
	if s == nil {
		return mon.Result{V: mon.Inconclusive, Msg: "unknown seed " + c.Seed}
	}
	res.Cell("seed=" + s.Name)
	sigSet := map[string]bool{}
	inputs := map[uint64]struct{}{}
	run := func(data []byte, fi *imagetypes.FrameInfo) bool {
		inputs[gen.Mix(gen.HashBytes(data), gen.HashStr(fiMeta(fi)))] = struct{}{}
		sg := x.runInput(s, data, fi)
		if !sigSet[sg] {
			sigSet[sg] = true
			return true
		}
		return false
	}
	switch c.Kind {
	case "trunc":
		for n := 0; n <= len(s.Data); n++ {
			run(s.Data[:n], nil)
		}
	case "sweep":
		vals := sweepQuick
		tier := os.Getenv("VERIF_TIER")
		for o := c.From; o < c.To && o < len(s.Data); o++ {
			d := append([]byte(nil), s.Data...)
			if tier == "thorough" {
				for v := 0; v < 256; v++ {
					d[o] = byte(v)
					run(d, nil)
				}
			} else {
				for _, v := range vals {
					d[o] = v
					run(d, nil)
				}
				for _, dv := range []int{-1, 1} {
					d[o] = s.Data[o] + byte(dv)
					run(d, nil)
				}
			}
		}
	case "field":
		for o := c.From; o < c.To && o+1 < len(s.Data); o++ {
			for _, v := range append(field16Vals, len(s.Data)-o-1, len(s.Data)-o+1) {
				d := append([]byte(nil), s.Data...)
				d[o], d[o+1] = byte(v>>8), byte(v)
				run(d, nil)
				if o+3 < len(d) { // 32-bit variant
					d[o+2], d[o+3] = byte(v>>8), byte(v)
					run(d, nil)
					d[o], d[o+1] = 0, 0
					run(d, nil)
				}
			}
		}
	case "rlefi":
		for _, w := range fiVals {
			for _, h := range []int{0, 1, 5, 255, 65535} {
				for _, ba := range []int{0, 1, 8, 9, 16, 32, 33, 64, 255} {
					for _, spp := range []int{0, 1, 3, 4, 16, 255} {
						fi := FrameInfo(w, h, 8, 8, spp, 0, 0)
						fi.BitsAllocated, fi.BitsStored = uint16(ba), uint16(ba)
						fi.PlanarConfiguration = uint16((w + h + ba) % 3)
						run(s.Data, fi)
					}
				}
			}
		}
	case "fill":
		// valid header, entropy-coded data replaced by constant patterns; for the JPEG
		// family also with the frame dimensions set to the 16-bit extremes
		pats := [][]byte{{0x00}, {0xFF}, {0x7F}, {0x55}, {0xAA}, {0xFF, 0x7F}, {0xFF, 0x00}, {0x80}, {0x01}}
		lens := []int{4, 64, 1024, 16384}
		var trailer []byte
		if len(s.Data) >= 2 {
			trailer = s.Data[len(s.Data)-2:]
		}
		dimOff := -1
		if s.Family == "jpeg" {
			if inf, _ := ref.WalkJPEG(s.Data); inf != nil && inf.SOFOffset > 0 {
				dimOff = inf.SOFOffset + 5 // height (2 bytes), width (2 bytes)
			}
		}
		dims := [][2]int{{-1, -1}, {2, 65535}, {65535, 2}, {1, 65535}, {65535, 1}, {64, 64}}
		for _, dm := range dims {
			if dm[0] >= 0 && dimOff < 0 {
				continue
			}
			for _, pt := range pats {
				for _, ln := range lens {
					d := append([]byte(nil), s.Data[:s.Header]...)
					if dm[0] >= 0 && dimOff+4 <= len(d) {
						d[dimOff], d[dimOff+1] = byte(dm[0]>>8), byte(dm[0])
						d[dimOff+2], d[dimOff+3] = byte(dm[1]>>8), byte(dm[1])
					}
					for len(d) < s.Header+ln {
						d = append(d, pt...)
					}
					run(d, nil)
					run(append(d, trailer...), nil)
				}
			}
		}
	case "sofmatrix":
		// every combination of sampling factors in the frame header (also chroma sampled more
		// densely than the first component, which no encoder here writes), on the whole stream, on
		// the stream cut behind its frame header / behind its scan header (a frame without any
		// entropy-coded data reaches the output conversion with empty component planes), and with
		// small frame dimensions
		inf, _ := ref.WalkJPEG(s.Data)
		if inf == nil || inf.SOFOffset <= 0 || inf.SOFOffset+10 > len(s.Data) {
			break
		}
		so := inf.SOFOffset
		nf := int(s.Data[so+9])
		sofEnd := so + 2 + (int(s.Data[so+2])<<8 | int(s.Data[so+3]))
		if nf < 1 || nf > 4 || sofEnd > len(s.Data) || so+10+3*nf > len(s.Data) {
			break
		}
		vals := []byte{1, 2, 4}
		if c.N >= 4 {
			vals = []byte{1, 2, 3, 4}
		}
		nv := len(vals) * len(vals)
		total := 1
		for i := 0; i < nf && i < 3; i++ {
			total *= nv
		}
		eoi := []byte{0xFF, 0xD9}
		dims := [][2]int{{-1, -1}, {1, 1}, {9, 17}, {16, 16}}
		for combo := 0; combo < total; combo++ {
			d := append([]byte(nil), s.Data...)
			v := combo
			for i := 0; i < nf && i < 3; i++ {
				hv := v % nv
				v /= nv
				d[so+10+3*i+1] = vals[hv/len(vals)]<<4 | vals[hv%len(vals)]
			}
			dm := dims[combo%len(dims)]
			if dm[0] >= 0 {
				d[so+5], d[so+6], d[so+7], d[so+8] = byte(dm[0]>>8), byte(dm[0]), byte(dm[1]>>8), byte(dm[1])
			}
			run(d, nil)
			run(append(append([]byte(nil), d[:sofEnd]...), eoi...), nil)
			if s.Header > sofEnd && s.Header <= len(d) {
				run(append(append([]byte(nil), d[:s.Header]...), eoi...), nil)
			}
		}
	case "sizshift":
		// the same image moved on the reference grid: image offset (dx,dy) with the extents
		// increased accordingly, one tile covering the grid or the tile grid moved along
		if len(s.Data) > 46 && s.Data[2] == 0xFF && s.Data[3] == 0x51 {
			get := func(d []byte, o int) uint32 { return be32u(d[o:]) }
			put := func(d []byte, o int, v uint32) {
				d[o], d[o+1], d[o+2], d[o+3] = byte(v>>24), byte(v>>16), byte(v>>8), byte(v)
			}
			offs := []uint32{0, 1, 7, 1024, 65536, 1 << 21, 1<<31 - 4096}
			for _, dx := range offs {
				for _, dy := range offs {
					for variant := 0; variant < 3; variant++ {
						d := append([]byte(nil), s.Data...)
						xs, ys := get(d, 8), get(d, 12)
						put(d, 8, xs+dx)
						put(d, 12, ys+dy)
						put(d, 16, dx)
						put(d, 20, dy)
						switch variant {
						case 0: // one tile covering the whole grid
							put(d, 24, xs+dx)
							put(d, 28, ys+dy)
						case 1: // tile grid moved with the image
							put(d, 32, dx)
							put(d, 36, dy)
						default: // tile offset at the origin, original tile size (many empty tiles)
						}
						run(d, nil)
					}
				}
			}
			// extreme aspect ratios (declared size still inside C09's domain) with tiles that
			// fit exactly, overhang the image, or leave a last row/column of tiles one sample thick
			for _, dm := range [][2]uint32{{65535, 8}, {8, 65535}, {8192, 8}, {8, 8192}, {4096, 3}, {3, 4096}, {1 << 20, 2}, {2, 1 << 20}, {300, 200}} {
				for variant := 0; variant < 5; variant++ {
					d := append([]byte(nil), s.Data...)
					put(d, 8, dm[0])
					put(d, 12, dm[1])
					put(d, 16, 0)
					put(d, 20, 0)
					put(d, 32, 0)
					put(d, 36, 0)
					switch variant {
					case 0:
						put(d, 24, dm[0])
						put(d, 28, dm[1])
					case 1: // tile overhangs the image on both sides
						put(d, 24, 2*dm[0])
						put(d, 28, 2*dm[1]+1)
					case 2:
						put(d, 24, 1<<31-1)
						put(d, 28, 1<<31-1)
					case 3: // last tile row / column one sample thick
						put(d, 24, maxU32(dm[0]-1, 1))
						put(d, 28, maxU32(dm[1]-1, 1))
					default: // tile overhangs vertically only / horizontally only
						put(d, 24, dm[0])
						put(d, 28, 2*dm[1])
						run(d, nil)
						put(d, 24, 2*dm[0])
						put(d, 28, dm[1])
					}
					run(d, nil)
				}
			}
		}
	case "j2kamp":
		// a well-formed main header whose COD claims much work (layers, levels, small
		// precincts) in progression order c.From, followed by one tile-part holding little
		// or no packet data: cost must follow the bytes present, not the claimed counts
		for _, d := range j2kAmplify(s.Data, c.From) {
			run(d, nil)
		}
	case "havoc":
		r := gen.New(c.MSeed)
		for i := 0; i < c.N; i++ {
			run(havocMutate(r, s.Data, hostileSeeds()), nil)
		}
	case "session":
		// behaviour-feedback loop: keep mutants whose behaviour signature is new
		r := gen.New(c.MSeed)
		corpus := [][]byte{s.Data}
		for i := 0; i < c.N; i++ {
			base := corpus[r.Intn(len(corpus))]
			m := havocMutate(r, base, hostileSeeds())
			if r.Chance(1, 3) {
				m = havocMutate(r, m, hostileSeeds())
			}
			if run(m, nil) && len(corpus) < 400 {
				corpus = append(corpus, m)
			}
		}
		res.AddFeat("session_corpus_growth", int64(len(corpus)-1))
	}
	res.Sub = len(inputs)
	res.AddFeat("decode_calls", int64(x.calls))
	res.AddFeat("distinct_behaviour_signatures", int64(len(sigSet)))
	// histogram of behaviours: errors vs successes
	nOK := 0
	for sg := range sigSet {
		if strings.Contains(sg, "ok:") {
			nOK++
		}
	}
	res.AddFeat("signatures_with_a_successful_decode", int64(nOK))
	return res
}

// j2kAmplify rewrites the COD (and, when the level count changes, the QCD) segment of a
// codestream and replaces everything after the main header by a single tile-part.
func j2kAmplify(src []byte, prog int) [][]byte {
	inf, _ := ref.WalkJ2K(src)
	if inf == nil || inf.COD == nil || inf.QCD == nil || len(inf.TileParts) == 0 || inf.MainHeaderEnd > len(src) {
		return nil
	}
	// locate the COD and QCD segments of the main header
	cs, ce, qs, qe := -1, -1, -1, -1
	for o := 2; o+4 <= inf.MainHeaderEnd; {
		if src[o] != 0xFF {
			return nil
		}
		l := int(src[o+2])<<8 | int(src[o+3])
		switch src[o+1] {
		case 0x52:
			cs, ce = o, o+2+l
		case 0x5C:
			qs, qe = o, o+2+l
		}
		o += 2 + l
	}
	if cs < 0 || qs < 0 || ce > inf.MainHeaderEnd || qe > inf.MainHeaderEnd {
		return nil
	}
	tp := inf.TileParts[0]
	if tp.BodyStart > len(src) || tp.BodyEnd > len(src) || tp.BodyStart > tp.BodyEnd {
		return nil
	}
	body := src[tp.BodyStart:tp.BodyEnd]
	bodies := [][]byte{nil, {0}, {0, 0, 0, 0}, bytes.Repeat([]byte{0}, 64), bytes.Repeat([]byte{0x80}, 16), body[:len(body)/2], body}
	var out [][]byte
	for _, layers := range []int{1, 3, 65535} {
		for _, levels := range []int{-1, 0, 5, 32} {
			for pv := 0; pv < 4; pv++ {
				c := *inf.COD
				lv := c.Levels
				if levels >= 0 {
					lv = levels
				}
				cod := []byte{0xFF, 0x52, 0, 0, byte(c.Scod &^ 1), byte(prog), byte(layers >> 8), byte(layers), byte(c.MCT), byte(lv), byte(c.XCB - 2), byte(c.YCB - 2), byte(c.Style), byte(c.Transform)}
				if pv >= 2 { // the smallest code-blocks, so that every small precinct holds one
					cod[10], cod[11] = 0, 0
				}
				if pv > 0 {
					cod[4] |= 1
					for r := 0; r <= lv; r++ {
						b := byte(0x11)
						switch {
						case pv == 2:
							b = 0x22
						case pv == 3 && r == 0:
							b = 0x00
						}
						cod = append(cod, b)
					}
				}
				cod[2], cod[3] = byte((len(cod)-2)>>8), byte(len(cod)-2)
				qcd := src[qs:qe]
				if lv != c.Levels {
					qcd = []byte{0xFF, 0x5C, 0, 0, byte(inf.QCD.Guard << 5)}
					for b := 0; b < 3*lv+1; b++ {
						qcd = append(qcd, byte(10<<3))
					}
					qcd[2], qcd[3] = byte((len(qcd)-2)>>8), byte(len(qcd)-2)
				}
				// main header with both segments replaced, in their original order
				var hdr []byte
				if cs < qs {
					hdr = append(append(append(append(append(hdr, src[:cs]...), cod...), src[ce:qs]...), qcd...), src[qe:inf.MainHeaderEnd]...)
				} else {
					hdr = append(append(append(append(append(hdr, src[:qs]...), qcd...), src[qe:cs]...), cod...), src[ce:inf.MainHeaderEnd]...)
				}
				hdrs := [][]byte{hdr}
				if layers == 65535 && len(hdr) > 45 && hdr[2] == 0xFF && hdr[3] == 0x51 {
					// the same header declaring 48 components (the first one repeated)
					lsiz := int(hdr[4])<<8 | int(hdr[5])
					if 4+lsiz <= len(hdr) && lsiz >= 41 {
						const nc = 48
						siz := append([]byte(nil), hdr[2:42]...)
						siz[2], siz[3] = byte((38+3*nc)>>8), byte((38+3*nc)&0xFF)
						siz[38], siz[39] = 0, nc
						for k := 0; k < nc; k++ {
							siz = append(siz, hdr[42], hdr[43], hdr[44])
						}
						h2 := append(append(append([]byte(nil), hdr[:2]...), siz...), hdr[4+lsiz:]...)
						hdrs = append(hdrs, h2)
					}
				}
				for _, hdr := range hdrs {
					for _, bd := range bodies {
						psot := 14 + len(bd)
						d := append([]byte(nil), hdr...)
						d = append(d, 0xFF, 0x90, 0, 10, 0, 0, byte(psot>>24), byte(psot>>16), byte(psot>>8), byte(psot), 0, 1, 0xFF, 0x93)
						d = append(d, bd...)
						d = append(d, 0xFF, 0xD9)
						out = append(out, d)
					}
				}
			}
		}
	}
	return out
}

func sortedKeys(m map[string]bool) []string {
	var k []string
	for s := range m {
		k = append(k, s)
	}
	sort.Strings(k)
	return k
}

// TimeEntries reports the cost of every entry point on every valid seed (development aid).
func TimeEntries() {
	for _, s := range hostileSeeds() {
		fi := FrameInfo(s.W, s.H, s.BA, s.BS, s.SPP, s.PR, 0)
		for _, e := range hEntries[s.Family] {
			t0 := time.Now()
			n := 20
			var sg string
			for i := 0; i < n; i++ {
				func() {
					defer func() { recover() }()
					sg = e.Run(s.Data, fi)
				}()
			}
			d := time.Since(t0) / time.Duration(n)
			if d > 200*time.Microsecond {
				fmt.Printf("%-22s %-28s %8.0fus len=%d %s\n", s.Name, e.Name, float64(d.Microseconds()), len(s.Data), sg)
			}
		}
	}
}

// SeedReport prints the behaviour signature of every entry point on every unmodified seed
// (development aid: a seed that its own family's decoder rejects explores little).
func SeedReport() {
	for _, s := range hostileSeeds() {
		fi := FrameInfo(s.W, s.H, s.BA, s.BS, s.SPP, s.PR, 0)
		for _, e := range hEntries[s.Family] {
			var sg string
			func() {
				defer func() {
					if r := recover(); r != nil {
						sg = fmt.Sprint("PANIC ", r)
					}
				}()
				sg = e.Run(s.Data, fi)
			}()
			fmt.Printf("%-22s %-28s len=%-6d %s\n", s.Name, e.Name, len(s.Data), sg)
		}
	}
}

func DumpSeed(name, path string) { os.WriteFile(path, seedByName(name).Data, 0o644) }
