package props

import (
	"encoding/json"
	"fmt"
	"strings"

	"github.com/cocosip/go-dicom-codecs/jpeg/baseline"
	"github.com/cocosip/go-dicom-codecs/jpeg/extended"
	"github.com/cocosip/go-dicom-codecs/jpeg2000"
	"github.com/cocosip/go-dicom-codecs/jpeg2000/htj2k"
	jlsl "github.com/cocosip/go-dicom-codecs/jpegls/lossless"
	jlsn "github.com/cocosip/go-dicom-codecs/jpegls/nearlossless"

	"verif/internal/gen"
	"verif/internal/mon"
	"verif/internal/ref"
)

// C16 — every encoded frame is one well-formed, self-describing codestream.

type c16Case struct {
	Gen   string `json:"gen"`
	Enc   string `json:"enc"` // baseline | extended | lossless | sv1 | jls | jlsnear | j2k | j2kirr | htj2k | htj2klossy | rle
	W     int    `json:"w"`
	H     int    `json:"h"`
	C     int    `json:"c"`
	P     int    `json:"p"`
	Sel   int    `json:"sel,omitempty"` // quality / predictor / NEAR
	CSeed uint64 `json:"cseed"`
	Class string `json:"class"`
	// jpeg2000
	J *j2kCase `json:"j,omitempty"`
	// region of interest: 1 = legacy ROIParams (all components), 2 = ROIConfig limited to the
	// components of ROIComps, 3 = ROIConfig with two rectangles on all components
	ROI      int   `json:"roi,omitempty"`
	ROIComps []int `json:"roicomps,omitempty"`
	// rle
	BA     int `json:"ba,omitempty"`
	Planar int `json:"planar,omitempty"`
}

type c16 struct{}

func init() { register(c16{}) }

func (c16) ID() string { return "C16" }
func (c16) Rule() string {
	return "the bytes returned by every encoder are walked by the independent strict marker walkers (T.81/T.87: internal/ref/jpegwalk.go; 15444-1: j2kwalk.go; Annex G: rle.go): start/end markers, every segment length consistent with its content and the next marker, referenced tables defined, no unescaped marker code in entropy-coded data (T.81: FF followed by 00/RSTn only; T.87: byte after FF has MSB 0; JPEG 2000: no FF followed by >8F inside tile-part bodies), Psot chain ends exactly at EOC, TPsot/TNsot consistent, TLM entries equal the (Isot,Psot) sequence, nothing after the end marker; header fields equal the encoder's arguments (width, height, components, precision, signedness, NEAR, ILV, predictor in Ss, transform/progression/layers/levels/code-block exponents in COD, Rsiz/CAP for HT); lossless Huffman scans are consumed exactly by the reference decoder with 1-bit padding. " +
		"cases: all encoders x precision/components/selectors on noise (0xFF-rich), sizes needing both bytes of a 16-bit field (255,256,257,65535x1,1x65535), JPEG 2000 layers/progressions/precincts and tile grids up to 8x8. non-trivial: a stream was returned and walked; distinct = distinct descriptor" +
		" (roi) RGN signalling: ROIParams / ROIConfig on all or a subset of the components x single-tile, tiled, layered and rate-targeted encodes; (htblocks) HT streams of 256x256 flatnoise images with 16x16 code-blocks (MagSgn streams of every length next to MEL streams that open with 1-bits) and of other sparse classes with 4x4..8x8 code-blocks" +
		" (ffdense) 16-bit lossless / SV1 scans of 50 KB and more with a stuffed 0xFF every third byte at a drifting phase"
}
func (c16) Assumptions() []string {
	return []string{"the three walkers are correct readings of T.81 B / T.87 C / 15444-1 A and PS3.5 Annex G"}
}
func (c16) Decode(raw json.RawMessage) (any, error) { return decodeInto[c16Case](raw) }

func c16Size(r *gen.Rand, big bool) (int, int) {
	if big {
		return gen.Pick(r, 255, 256, 257, 300), gen.Pick(r, 255, 256, 257, 100)
	}
	return 1 + r.Intn(64), 1 + r.Intn(64)
}

func (c16) Build(tier string, seed uint64) []any {
	var cs []any
	th := tier == "thorough"
	per := 36
	if th {
		per = 600
	}
	k := 0
	add := func(c *c16Case) { cs = append(cs, c) }
	for i := 0; i < per; i++ {
		for _, enc := range []string{"baseline", "extended", "extended12", "lossless", "sv1", "jls", "jlsnear", "rle"} {
			r := gen.Sub(seed, "C16", enc, k)
			k++
			c := &c16Case{Gen: "cell", Enc: enc, Class: "noise", CSeed: r.U64()}
			c.W, c.H = c16Size(r, i%6 == 5)
			switch enc {
			case "baseline", "extended":
				c.C, c.P, c.Sel = gen.Pick(r, 1, 3), 8, 1+r.Intn(100)
			case "extended12":
				c.Enc, c.C, c.P, c.Sel = "extended", 1, 12, 1+r.Intn(100)
			case "lossless":
				c.C, c.P, c.Sel = gen.Pick(r, 1, 3), 2+r.Intn(15), r.Intn(8)
			case "sv1":
				c.C, c.P = gen.Pick(r, 1, 3), 2+r.Intn(15)
			case "jls":
				c.C, c.P = gen.Pick(r, 1, 3), 2+r.Intn(15)
			case "jlsnear":
				c.C, c.P = gen.Pick(r, 1, 3), 2+r.Intn(15)
				c.Sel = r.Intn(maxNear(c.P) + 1)
			case "rle":
				c.BA, c.C, c.Planar = gen.Pick(r, 8, 16, 32), gen.Pick(r, 1, 3), r.Intn(2)
				c.P = c.BA
			}
			add(c)
		}
		// JPEG 2000 families
		for _, enc := range []string{"j2k", "j2kirr", "j2ktiled", "htj2k", "htj2klossy"} {
			r := gen.Sub(seed, "C16", enc, k)
			k++
			j := &j2kCase{Gen: enc}
			randJ2KConfig(r, j)
			j.W, j.H = c16Size(r, i%6 == 5)
			c := &c16Case{Gen: "cell", Enc: enc, J: j, Class: "noise"}
			switch enc {
			case "j2kirr":
				j.Quality = 1 + r.Intn(100)
				j.P = gen.Pick(r, 8, 12, 16)
				if j.C == 2 || j.C == 4 {
					j.MCT = false
				}
			case "j2ktiled":
				c.Enc = "j2k"
				j.PW, j.PH = 0, 0
				tx, ty := 1+r.Intn(8), 1+r.Intn(8)
				j.TW, j.TH = (j.W+tx-1)/tx, (j.H+ty-1)/ty
				if j.TW < 1 {
					j.TW = 1
				}
				if j.TH < 1 {
					j.TH = 1
				}
				j.C = gen.Pick(r, 1, 3)
			case "htj2k", "htj2klossy":
				j.P = gen.Pick(r, 8, 16)
				j.C = gen.Pick(r, 1, 3)
				j.Layers, j.Prog, j.PW, j.PH = 1, 2, 0, 0
				j.Quality = 1 + r.Intn(100)
				j.MCT = true
			}
			c.W, c.H, c.C, c.P = j.W, j.H, j.C, j.P
			add(c)
		}
	}
	// (hdrmatrix) the self-description of JPEG 2000 streams over the complete small matrix of
	// header-relevant arguments: components 1..4 x EnableMCT x signed x reversible/irreversible
	// x progression order (the COD transform byte must say what was applied)
	m := 0
	for comps := 1; comps <= 4; comps++ {
		for _, mct := range []bool{false, true} {
			for _, signed := range []bool{false, true} {
				for _, enc := range []string{"j2k", "j2kirr"} {
					r := gen.Sub(seed, "C16", "hdrmatrix", m)
					j := &j2kCase{Gen: "hdrmatrix"}
					randJ2KConfig(r, j)
					j.C, j.MCT, j.Signed, j.Prog = comps, mct, signed, m%5
					j.W, j.H = 5+r.Intn(40), 5+r.Intn(40)
					if enc == "j2kirr" {
						j.Quality = 1 + r.Intn(100)
						j.P = gen.Pick(r, 8, 12, 16)
						if j.C == 2 || j.C == 4 {
							j.MCT = false
						}
					}
					m++
					add(&c16Case{Gen: "hdrmatrix", Enc: enc, J: j, Class: "noise", W: j.W, H: j.H, C: j.C, P: j.P})
				}
			}
		}
	}
	// every frame of a multi-frame codec-level Encode (one encoder object may serve all frames)
	for i, ts := range c10Syntaxes {
		n := 1
		if th {
			n = 6
		}
		for j := 0; j < n; j++ {
			r := gen.Sub(seed, "C16", "frames"+ts, j)
			ba, bs, spp, _ := c10FrameInfo(r, ts)
			if ba == 16 && bs <= 8 {
				bs = 12
			}
			if ts == ".50" {
				bs = 8
			}
			if ts == ".51" && ba == 8 {
				bs = 8
			}
			_ = i
			add(&c16Case{Gen: "frames", Enc: "codec" + ts, W: 8 + r.Intn(60), H: 8 + r.Intn(60), C: spp, P: bs, BA: ba, Sel: 3 + r.Intn(3), Class: "noise", CSeed: r.U64()})
		}
	}
	// (ffdense) Huffman-coded scans of 50 KB and more with a stuffed 0xFF every third byte at a
	// drifting phase (a 0xFF on every kind of buffer boundary of the byte writer)
	nFF := 12
	if th {
		nFF = 120
	}
	for i := 0; i < nFF; i++ {
		r := gen.Sub(seed, "C16", "ffdense", i)
		c := &c16Case{Gen: "ffdense", Enc: gen.Pick(r, "lossless", "lossless", "sv1"), Class: "ffdense", CSeed: r.U64(), W: 120 + r.Intn(140), H: 120 + r.Intn(140), C: gen.Pick(r, 1, 1, 3), P: 16}
		if c.Enc == "lossless" {
			c.Sel = gen.Pick(r, 1, 1, 2, 7, 0)
		}
		add(c)
	}
	// (roi) region-of-interest signalling (RGN segments in the main header or in every tile-part
	// header) on single-tile, tiled, layered and rate-targeted encodes; regions on all or on a
	// subset of the components
	nROI := 60
	if th {
		nROI = 600
	}
	for i := 0; i < nROI; i++ {
		r := gen.Sub(seed, "C16", "roi", i)
		j := &j2kCase{Gen: "roi"}
		randJ2KConfig(r, j)
		j.W, j.H = 16+r.Intn(80), 16+r.Intn(80)
		j.C = gen.Pick(r, 1, 3, 3, 3, 4)
		j.PW, j.PH = 0, 0
		if j.C != 3 {
			j.MCT = false
		}
		if i%3 != 0 {
			tx, ty := 1+r.Intn(4), 1+r.Intn(4)
			j.TW, j.TH = (j.W+tx-1)/tx, (j.H+ty-1)/ty
		}
		if i%2 == 0 {
			j.Layers = 2 + r.Intn(3)
		}
		if i%5 == 0 {
			j.Ratio, j.Append = float64(2+r.Intn(8)), true
		}
		c := &c16Case{Gen: "roi", Enc: gen.Pick(r, "j2k", "j2k", "j2kirr"), J: j, Class: "noise", W: j.W, H: j.H, C: j.C, P: j.P}
		if c.Enc == "j2kirr" {
			j.Quality = 30 + r.Intn(70)
			j.P = gen.Pick(r, 8, 12, 16)
			c.P = j.P
		}
		c.ROI = 1 + r.Intn(3)
		if c.ROI == 2 {
			for k := 0; k < j.C; k++ {
				if r.Bool() {
					c.ROIComps = append(c.ROIComps, k)
				}
			}
			if len(c.ROIComps) == 0 || len(c.ROIComps) == j.C {
				c.ROIComps = []int{j.C - 1}
			}
		}
		add(c)
	}
	// (htblocks) thousands of small HT code-blocks per image with content whose blocks start with
	// all-zero quads (MEL stream opening with 1-bits) and carry MagSgn streams of every length:
	// the HT segment layout MagSgn || MEL || VLC puts the last MagSgn byte next to the first MEL byte
	nHT := 256
	if th {
		nHT = 1500
	}
	for i := 0; i < nHT; i++ {
		r := gen.Sub(seed, "C16", "htblocks", i)
		j := &j2kCase{Gen: "htblocks"}
		randJ2KConfig(r, j)
		j.W, j.H = 128+r.Intn(129), 128+r.Intn(129)
		j.P, j.C, j.Signed = gen.Pick(r, 8, 8, 12, 16), 1, false
		j.Layers, j.Prog, j.PW, j.PH = 1, 2, 0, 0
		j.CBW, j.CBH = gen.Pick(r, 4, 4, 8), gen.Pick(r, 4, 4, 8)
		j.Levels = gen.Pick(r, 1, 2, 3, 5)
		j.Quality = 30 + r.Intn(70)
		j.MCT = false
		j.Class = gen.Pick(r, "smooth", "specks", "varnoise", "annot", "impulses", "edges")
		if i%4 != 3 {
			// 16x16 code-blocks aligned with the stripes of the flatnoise class
			j.CBW, j.CBH, j.Levels, j.Class = 16, 16, gen.Pick(r, 1, 1, 2), "flatnoise"
			j.W, j.H = 256, 256
		}
		enc := gen.Pick(r, "htj2k", "htj2k", "htj2klossy")
		add(&c16Case{Gen: "htblocks", Enc: enc, J: j, Class: j.Class, W: j.W, H: j.H, C: j.C, P: j.P})
	}
	// 16-bit-field extremes
	for i, enc := range []string{"baseline", "extended", "lossless", "sv1", "jls", "jlsnear", "j2k", "rle"} {
		for _, g := range [][2]int{{65535, 1}, {1, 65535}} {
			if !th && (i+g[0])%2 == int(seed%2) {
				continue
			}
			r := gen.Sub(seed, "C16", "long"+enc, g[0])
			c := &c16Case{Gen: "long", Enc: enc, W: g[0], H: g[1], C: 1, P: 8, Class: "noise", CSeed: r.U64()}
			switch enc {
			case "baseline", "extended":
				c.Sel = 75
			case "lossless":
				c.Sel, c.P = 1+r.Intn(7), 12
			case "jlsnear":
				c.Sel = 2
			case "rle":
				c.BA = 8
			case "j2k":
				j := &j2kCase{Gen: "long", W: g[0], H: g[1], C: 1, P: 8, Levels: 3, CBW: 64, CBH: 64, Layers: 1, Class: "noise", CSeed: r.U64()}
				c.J = j
			}
			add(c)
		}
	}
	return cs
}

func tabDefined(inf *ref.JPEGInfo, class, id int) bool { return inf.FindDHT(class, id) != nil }

func (c16) Exec(d any) mon.Result {
	c := d.(*c16Case)
	res := mon.Hold()
	res.Cell("enc=" + c.Enc)
	fail := func(class, msg string) mon.Result {
		res.V, res.Class, res.Msg = mon.Violated, class, msg
		return res
	}
	if c.J != nil {
		return c16J2K(c, res)
	}
	if c.Gen == "frames" {
		return c16Frames(c, res)
	}
	if c.Enc == "rle" {
		info := FrameInfo(c.W, c.H, c.BA, c.BA, c.C, 0, c.Planar)
		s := gen.Content(gen.New(c.CSeed), "noise", c.W, c.H, c.C, c.BA, 0)
		fr := gen.PackN(s, c.BA/8)
		enc := NewPD(info)
		if err := Codec("rle").Encode(NewPD(info, fr), enc, nil); err != nil {
			return fail("encode-error", err.Error())
		}
		if _, _, err := ref.RLEDecodeFrame(enc.Frames[0], c.BA/8*c.C, c.W*c.H); err != nil {
			return fail("annexg-invalid", err.Error())
		}
		return res
	}
	s := gen.Content(gen.New(c.CSeed), c.Class, c.W, c.H, c.C, c.P, 0)
	px := gen.Pack(s, c.P)
	var stream []byte
	var err error
	wantSOF, wantSs := 0, -1
	switch c.Enc {
	case "baseline":
		stream, err = baseline.Encode(px, c.W, c.H, c.C, c.Sel)
		wantSOF = 0xC0
	case "extended":
		stream, err = extended.Encode(px, c.W, c.H, c.C, c.P, c.Sel)
		wantSOF = 0xC1
	case "lossless":
		stream, err = c02Encode(c.Sel, px, c.W, c.H, c.C, c.P)
		wantSOF = 0xC3
		if c.Sel > 0 {
			wantSs = c.Sel
		}
	case "sv1":
		stream, err = c02Encode(selSV1, px, c.W, c.H, c.C, c.P)
		wantSOF, wantSs = 0xC3, 1
	case "jls":
		stream, err = jlsl.Encode(px, c.W, c.H, c.C, c.P)
		wantSOF = 0xF7
	case "jlsnear":
		stream, err = jlsn.Encode(px, c.W, c.H, c.C, c.P, c.Sel)
		wantSOF = 0xF7
	}
	if err != nil {
		return fail("encode-error", err.Error())
	}
	inf, werr := ref.WalkJPEG(stream)
	if werr != nil {
		return fail("stream-malformed", werr.Error())
	}
	res.AddFeat("stuffed_ff_in_scans", int64(inf.StuffedFF))
	res.AddFeat("stream_bytes", int64(len(stream)))
	if h := inf.CompleteDHT(); h != nil {
		return fail("dht-all-ones-codeword", fmt.Sprintf("Huffman table Tc=%d Th=%d assigns every code word including the all-1-bits one that T.81 reserves (BITS %v)", h.Class, h.ID, h.Bits[1:]))
	}
	if c.Enc == "extended" && c.P == 8 && inf.SOF == 0xC0 {
		// an 8-bit Extended stream may legitimately be coded with the baseline process
		wantSOF = 0xC0
	}
	if inf.SOF != wantSOF {
		return fail("header-sof", fmt.Sprintf("frame header marker FF%02X, expected FF%02X", inf.SOF, wantSOF))
	}
	if inf.W != c.W || inf.H != c.H || len(inf.Comps) != c.C || inf.P != c.P {
		return fail("header-geometry", fmt.Sprintf("frame header declares %dx%d c=%d P=%d, encoder was given %dx%d c=%d P=%d", inf.W, inf.H, len(inf.Comps), inf.P, c.W, c.H, c.C, c.P))
	}
	seen := map[int]bool{}
	for _, sc := range inf.Scans {
		for _, scc := range sc.Comps {
			seen[scc.Cs] = true
			switch wantSOF {
			case 0xC0, 0xC1:
				if !tabDefined(inf, 0, scc.Td) || !tabDefined(inf, 1, scc.Ta) {
					return fail("undefined-table", fmt.Sprintf("scan component %d references Huffman tables DC %d / AC %d that are not defined", scc.Cs, scc.Td, scc.Ta))
				}
			case 0xC3:
				if !tabDefined(inf, 0, scc.Td) {
					return fail("undefined-table", fmt.Sprintf("scan component %d references undefined Huffman table %d", scc.Cs, scc.Td))
				}
			}
		}
	}
	for _, fc := range inf.Comps {
		if !seen[fc.ID] {
			return fail("component-not-coded", fmt.Sprintf("frame component %d appears in no scan", fc.ID))
		}
		if wantSOF == 0xC0 || wantSOF == 0xC1 {
			if _, ok := inf.DQT[fc.Tq]; !ok {
				return fail("undefined-table", fmt.Sprintf("component %d references undefined quantisation table %d", fc.ID, fc.Tq))
			}
		}
	}
	switch wantSOF {
	case 0xC3:
		sc := inf.Scans[0]
		if wantSs >= 0 && sc.Ss != wantSs {
			return fail("header-predictor", fmt.Sprintf("SOS Ss=%d, predictor requested %d", sc.Ss, wantSs))
		}
		r, err := ref.T81LosslessDecode(stream)
		if err != nil {
			return fail("scan-not-consumed", err.Error())
		}
		if r.PadBits >= 8 || !r.PadAllOnes {
			return fail("scan-padding", fmt.Sprintf("%d padding bits, all ones: %v", r.PadBits, r.PadAllOnes))
		}
	case 0xF7:
		wantILV, wantNear := 0, 0
		if c.C == 3 {
			wantILV = 2
		}
		if c.Enc == "jlsnear" {
			wantNear = c.Sel
		}
		for _, sc := range inf.Scans {
			if sc.NEAR != wantNear || sc.ILV != wantILV {
				return fail("header-near-ilv", fmt.Sprintf("SOS declares NEAR=%d ILV=%d, expected NEAR=%d ILV=%d", sc.NEAR, sc.ILV, wantNear, wantILV))
			}
		}
		if _, err := ref.T87Decode(stream); err != nil {
			return fail("scan-not-consumed", err.Error())
		}
	}
	return res
}

func log2(v int) int {
	n := 0
	for (1 << uint(n)) < v {
		n++
	}
	return n
}

func c16J2K(c *c16Case, res mon.Result) mon.Result {
	j := c.J
	fail := func(class, msg string) mon.Result {
		res.V, res.Class, res.Msg = mon.Violated, class, msg
		return res
	}
	px := j.pixels()
	lossless := c.Enc == "j2k" || c.Enc == "htj2k"
	p := j.params(lossless)
	ht := c.Enc == "htj2k" || c.Enc == "htj2klossy"
	if ht {
		p.HTJ2KMode = true
		p.BlockEncoderFactory = func(w, h int) jpeg2000.BlockEncoder { return htj2k.NewHTEncoder(w, h) }
	}
	switch c.ROI {
	case 1:
		p.ROI = &jpeg2000.ROIParams{X0: 1, Y0: 2, Width: j.W/2 + 1, Height: j.H/2 + 1, Shift: 3}
	case 2:
		p.ROIConfig = &jpeg2000.ROIConfig{ROIs: []jpeg2000.ROIRegion{{ID: "a", Rect: &jpeg2000.ROIParams{X0: 2, Y0: 1, Width: j.W / 2, Height: j.H / 2, Shift: 4}, Components: c.ROIComps}}}
	case 3:
		p.ROIConfig = &jpeg2000.ROIConfig{ROIs: []jpeg2000.ROIRegion{
			{ID: "a", Rect: &jpeg2000.ROIParams{X0: 0, Y0: 0, Width: j.W / 3, Height: j.H / 3, Shift: 3}},
			{ID: "b", Rect: &jpeg2000.ROIParams{X0: j.W / 2, Y0: j.H / 2, Width: j.W / 3, Height: j.H / 3, Shift: 3}}}}
	}
	if c.ROI > 0 {
		res.Cell(fmt.Sprintf("roi=%d/tiled=%v/layers>1=%v", c.ROI, j.TW > 0, j.Layers > 1))
	}
	res.Cell(fmt.Sprintf("layers=%d/prog=%d", j.Layers, j.Prog))
	stream, err := jpeg2000.NewEncoder(p).Encode(px)
	if err != nil {
		return fail("encode-error", err.Error())
	}
	inf, werr := ref.WalkJ2K(stream)
	if werr != nil {
		return fail("stream-malformed", werr.Error())
	}
	res.AddFeat("ff_bytes_in_tile_bodies", int64(inf.FFInBodies))
	res.AddFeat("tile_parts", int64(len(inf.TileParts)))
	res.AddFeat("stream_bytes", int64(len(stream)))
	if inf.BadBodyPairs > 0 {
		return fail("marker-code-in-packet-data", fmt.Sprintf("%d byte pairs FF xx with xx > 8F inside tile-part bodies, first at offset %d: FF %02X", inf.BadBodyPairs, inf.FirstBadPair, stream[minInt(inf.FirstBadPair+1, len(stream)-1)]))
	}
	s := inf.SIZ
	if s.Xsiz-s.XOsiz != j.W || s.Ysiz-s.YOsiz != j.H || s.Csiz != j.C {
		return fail("header-geometry", fmt.Sprintf("SIZ declares %dx%d c=%d, encoder was given %dx%d c=%d", s.Xsiz-s.XOsiz, s.Ysiz-s.YOsiz, s.Csiz, j.W, j.H, j.C))
	}
	for k, ss := range s.Ssiz {
		wantS := j.P - 1
		if j.Signed {
			wantS |= 0x80
		}
		if ss != wantS || s.XRsiz[k] != 1 || s.YRsiz[k] != 1 {
			return fail("header-precision", fmt.Sprintf("SIZ component %d: Ssiz=%#x XRsiz=%d YRsiz=%d, expected Ssiz=%#x", k, ss, s.XRsiz[k], s.YRsiz[k], wantS))
		}
	}
	wantTW, wantTH := j.TW, j.TH
	if wantTW == 0 {
		wantTW, wantTH = j.W, j.H
	}
	if s.XTsiz != wantTW || s.YTsiz != wantTH {
		return fail("header-tiles", fmt.Sprintf("SIZ tile size %dx%d, expected %dx%d", s.XTsiz, s.YTsiz, wantTW, wantTH))
	}
	cod := inf.COD
	wantTransform := 0
	if lossless {
		wantTransform = 1
	}
	if cod.Transform != wantTransform {
		return fail("header-transform", fmt.Sprintf("COD transformation %d, expected %d", cod.Transform, wantTransform))
	}
	if cod.Prog != j.Prog || cod.Layers != j.Layers || cod.Levels != j.Levels {
		return fail("header-cod", fmt.Sprintf("COD declares progression %d layers %d levels %d, encoder was given %d/%d/%d", cod.Prog, cod.Layers, cod.Levels, j.Prog, j.Layers, j.Levels))
	}
	if cod.XCB != log2(j.CBW) || cod.YCB != log2(j.CBH) {
		return fail("header-cod", fmt.Sprintf("COD code-block exponents %d/%d, expected %d/%d", cod.XCB, cod.YCB, log2(j.CBW), log2(j.CBH)))
	}
	wantMCT := 0
	if j.MCT && j.C == 3 {
		wantMCT = 1
	}
	if (cod.MCT&1 != 0) != (wantMCT != 0) {
		return fail("header-cod", fmt.Sprintf("COD multiple-component-transform flag %d, expected %d", cod.MCT, wantMCT))
	}
	if ht {
		if s.Rsiz&0x4000 == 0 || !inf.HasCAP {
			return fail("header-ht", fmt.Sprintf("HTJ2K stream: Rsiz=%#x CAP present=%v", s.Rsiz, inf.HasCAP))
		}
		if cod.Style&0x40 == 0 {
			return fail("header-ht", fmt.Sprintf("HTJ2K stream: COD code-block style %#x lacks the HT bit", cod.Style))
		}
	} else if s.Rsiz&0x4000 != 0 || inf.HasCAP {
		return fail("header-ht", "Part 1 stream carries HT capability signalling")
	}
	// tile-part bookkeeping
	tx, ty := (j.W+wantTW-1)/wantTW, (j.H+wantTH-1)/wantTH
	count := map[int]int{}
	tn := map[int]int{}
	for _, tp := range inf.TileParts {
		if tp.Isot >= tx*ty {
			return fail("tile-index", fmt.Sprintf("Isot=%d with %d tiles", tp.Isot, tx*ty))
		}
		if tp.TPsot != count[tp.Isot] {
			return fail("tile-part-index", fmt.Sprintf("tile %d: TPsot=%d, expected %d", tp.Isot, tp.TPsot, count[tp.Isot]))
		}
		count[tp.Isot]++
		if tp.TNsot != 0 {
			if tn[tp.Isot] != 0 && tn[tp.Isot] != tp.TNsot {
				return fail("tile-part-index", fmt.Sprintf("tile %d: inconsistent TNsot", tp.Isot))
			}
			tn[tp.Isot] = tp.TNsot
		}
	}
	for t := 0; t < tx*ty; t++ {
		if count[t] == 0 {
			return fail("tile-missing", fmt.Sprintf("tile %d of %d has no tile-part", t, tx*ty))
		}
		if tn[t] != 0 && tn[t] != count[t] {
			return fail("tile-part-index", fmt.Sprintf("tile %d: TNsot=%d but %d tile-parts present", t, tn[t], count[t]))
		}
	}
	if inf.HasTLM {
		if len(inf.TLM) != len(inf.TileParts) {
			return fail("tlm-mismatch", fmt.Sprintf("TLM lists %d tile-parts, %d present", len(inf.TLM), len(inf.TileParts)))
		}
		for k, e := range inf.TLM {
			tp := inf.TileParts[k]
			if (e.Ttlm >= 0 && e.Ttlm != tp.Isot) || e.Ptlm != tp.BodyEnd-tp.Offset {
				return fail("tlm-mismatch", fmt.Sprintf("TLM entry %d = (tile %d, %d bytes), tile-part is (tile %d, %d bytes)", k, e.Ttlm, e.Ptlm, tp.Isot, tp.BodyEnd-tp.Offset))
			}
		}
	}
	return res
}

func minInt(a, b int) int {
	if a < b {
		return a
	}
	return b
}

// c16Frames walks every output frame of one multi-frame codec-level Encode.
func c16Frames(c *c16Case, res mon.Result) mon.Result {
	ts := strings.TrimPrefix(c.Enc, "codec")
	fail := func(class, msg string) mon.Result {
		res.V, res.Class, res.Msg = mon.Violated, class, msg
		return res
	}
	info := FrameInfo(c.W, c.H, c.BA, c.P, c.C, 0, 0)
	var frames [][]byte
	for f := 0; f < c.Sel; f++ {
		cl := "noise"
		if f%2 == 1 {
			cl = "smooth"
		}
		frames = append(frames, gen.PackN(gen.Content(gen.New(gen.Mix(c.CSeed, uint64(f))), cl, c.W, c.H, c.C, c.P, 1), c.BA/8))
	}
	enc := NewPD(info)
	if err := Codec(ts).Encode(NewPD(info, frames...), enc, nil); err != nil {
		return fail("encode-error", err.Error())
	}
	if len(enc.Frames) != len(frames) {
		return fail("frame-count", fmt.Sprintf("%d frames for %d inputs", len(enc.Frames), len(frames)))
	}
	for f, st := range enc.Frames {
		switch {
		case ts == "rle":
			if _, _, err := ref.RLEDecodeFrame(st, c.BA/8*c.C, c.W*c.H); err != nil {
				return fail("annexg-invalid", fmt.Sprintf("frame %d: %v", f, err))
			}
		case ts == ".50" || ts == ".51" || ts == ".57" || ts == ".70" || ts == ".80" || ts == ".81":
			inf, err := ref.WalkJPEG(st)
			if err != nil {
				return fail("stream-malformed", fmt.Sprintf("frame %d: %v", f, err))
			}
			if inf.W != c.W || inf.H != c.H || len(inf.Comps) != c.C {
				return fail("header-geometry", fmt.Sprintf("frame %d declares %dx%dx%d", f, inf.W, inf.H, len(inf.Comps)))
			}
		default:
			inf, err := ref.WalkJ2K(st)
			if err != nil {
				return fail("stream-malformed", fmt.Sprintf("frame %d: %v", f, err))
			}
			if inf.BadBodyPairs > 0 {
				return fail("marker-code-in-packet-data", fmt.Sprintf("frame %d: FF followed by > 8F inside a tile-part body at offset %d", f, inf.FirstBadPair))
			}
			if inf.SIZ.Xsiz-inf.SIZ.XOsiz != c.W || inf.SIZ.Ysiz-inf.SIZ.YOsiz != c.H || inf.SIZ.Csiz != c.C {
				return fail("header-geometry", fmt.Sprintf("frame %d declares %dx%dx%d", f, inf.SIZ.Xsiz, inf.SIZ.Ysiz, inf.SIZ.Csiz))
			}
			if inf.HasTLM {
				if len(inf.TLM) != len(inf.TileParts) {
					return fail("tlm-mismatch", fmt.Sprintf("frame %d: TLM lists %d tile-parts, %d present", f, len(inf.TLM), len(inf.TileParts)))
				}
				for k, e := range inf.TLM {
					tp := inf.TileParts[k]
					if (e.Ttlm >= 0 && e.Ttlm != tp.Isot) || e.Ptlm != tp.BodyEnd-tp.Offset {
						return fail("tlm-mismatch", fmt.Sprintf("frame %d: TLM entry %d = (tile %d, %d bytes), tile-part is (tile %d, %d bytes)", f, k, e.Ttlm, e.Ptlm, tp.Isot, tp.BodyEnd-tp.Offset))
					}
				}
			}
		}
	}
	res.AddFeat("codec_frames_walked", int64(len(frames)))
	return res
}
