package props

import (
	"encoding/json"
	"fmt"
	"math"

	"github.com/cocosip/go-dicom-codecs/jpeg2000"

	"verif/internal/gen"
	"verif/internal/mon"
	"verif/internal/ref"
)

// C12 — JPEG 2000 irreversible path: loss bounded by the declared step sizes.

type c12 struct{}

func init() { register(c12{}) }

func (c12) ID() string { return "C12" }
func (c12) Rule() string {
	return "jpeg2000.Encoder{Lossless:false, single tile, NumLayers=1, no rate target} -> Decoder. The strict 15444-1 walker reads SIZ/COD/QCD from the emitted stream; step of band b = 2^(R_b-eps_b)(1+mu_b/2^11); per-sample bound T(x) = sum_k |S(x,k)| * step_b(k) with S the synthesis operator of the independent float64 9/7 inverse (exact unit-impulse gains for images up to 4096 samples, absolute-valued lifting upper bound above), combined through |ICT^-1| when the colour transform is on, plus the fixed allowance A (2 for P<=12, 4 above; doubled with ICT). Every decoded sample within T(x)+A of the source and inside the declared range; geometry equal. " +
		"cases: every quality 1..100; NumLevels 0..6; P in {8,12,16}; signed/unsigned; components {1,3}; code-blocks {16,32,64}; all sizes up to 12x12, sampled sizes to 96 and to 512; noise, extremes, smooth, constant. " +
		"(hist) every precision 1..16, each encode made right after an unrelated 8x8 irreversible encode with neighbouring quality / levels / precision (values derived from those three must not carry over between Encoder objects). " +
		"non-trivial: encoder/decoder accepted, the walker parsed QCD, all samples compared; distinct = distinct descriptor"
}
func (c12) Assumptions() []string {
	return []string{"internal/ref/j2kwalk.go and dwt97.go (independent marker walker and float64 9/7 synthesis, self-validated in the prelude)", "dead-zone quantiser worst case |error| <= step per coefficient", "allowance A fixed in DESIGN.md before the check existed"}
}
func (c12) Decode(raw json.RawMessage) (any, error) { return decodeInto[j2kCase](raw) }
func (c12) Derive(d any) map[string]any             { return j2kDerive(d.(*j2kCase)) }

func (c12) Prelude() error {
	// perfect reconstruction of the reference transform pair
	r := gen.New(7)
	for _, g := range [][3]int{{1, 1, 3}, {2, 5, 2}, {7, 3, 3}, {16, 16, 4}, {33, 17, 5}, {5, 40, 6}} {
		w, h, l := g[0], g[1], g[2]
		x := make([]float64, w*h)
		for i := range x {
			x[i] = float64(r.Intn(4096)) - 2048
		}
		y := append([]float64(nil), x...)
		ref.Forward97(y, w, h, l)
		ref.Inverse97(y, w, h, l, false)
		for i := range x {
			if math.Abs(x[i]-y[i]) > 1e-6 {
				return fmt.Errorf("ref 9/7 pair is not an identity at %dx%d levels %d: %g vs %g", w, h, l, x[i], y[i])
			}
		}
		// conservative gains dominate exact gains
		ge, gc := ref.GainMaps(w, h, l, true), ref.GainMaps(w, h, l, false)
		for b := range ge {
			for i := range ge[b] {
				if gc[b][i] < ge[b][i]-1e-9 {
					return fmt.Errorf("conservative gain below exact gain at %dx%d band %d", w, h, b)
				}
			}
		}
		// DC gain of the LL band is 1 for a constant image: a constant analysed
		// and synthesised stays constant (checked above); LL gain map >= 1
	}
	return nil
}

func (c12) Build(tier string, seed uint64) []any {
	var cs []any
	th := tier == "thorough"
	mk := func(g string, r *gen.Rand) *j2kCase {
		c := &j2kCase{Gen: g, Layers: 1, Prog: r.Intn(5)}
		c.C = gen.Pick(r, 1, 1, 3)
		c.P = gen.Pick(r, 8, 12, 16)
		c.Signed = r.Chance(1, 3)
		c.Levels = r.Intn(7)
		c.CBW = gen.Pick(r, 16, 32, 64)
		c.CBH = gen.Pick(r, 16, 32, 64)
		c.MCT = c.C == 3 && r.Bool()
		c.Quality = 1 + r.Intn(100)
		c.Class = gen.Pick(r, "noise", "noise", "twolevel", "altext", "smooth", "const", "ramp", "checker")
		c.CSeed = r.U64()
		return c
	}
	k := 0
	for q := 1; q <= 100; q++ {
		n := 6
		if th {
			n = 40
		}
		for j := 0; j < n; j++ {
			r := gen.Sub(seed, "C12", "quality", k)
			k++
			c := mk("quality", r)
			c.Quality = q
			c.W, c.H = 4+r.Intn(40), 4+r.Intn(40)
			cs = append(cs, c)
		}
	}
	lim := 8
	if th {
		lim = 12
	}
	for w := 1; w <= lim; w++ {
		for h := 1; h <= lim; h++ {
			r := gen.Sub(seed, "C12", "small", k)
			k++
			c := mk("small", r)
			c.W, c.H = w, h
			cs = append(cs, c)
		}
	}
	// zero levels and images smaller than the filter support, explicitly
	for i := 0; i < 40; i++ {
		r := gen.Sub(seed, "C12", "lv0", i)
		c := mk("lv0", r)
		c.Levels = 0
		c.W, c.H = 1+r.Intn(64), 1+r.Intn(64)
		cs = append(cs, c)
	}
	// (hist) every precision 1..16, each encode made right after an unrelated irreversible encode
	// whose (quality, levels, precision) is a neighbour of its own (same quality mostly, one level
	// more or fewer, precision shifted by 1, 4, 8 or 10): tables derived from those three values
	// must not carry over from one Encoder to the next
	nHist := 500
	if th {
		nHist = 8000
	}
	for i := 0; i < nHist; i++ {
		r := gen.Sub(seed, "C12", "hist", i)
		c := mk("hist", r)
		c.P = 1 + r.Intn(16)
		if c.P == 1 {
			c.Signed = false
		}
		c.W, c.H = 8+r.Intn(40), 8+r.Intn(40)
		c.PreP = c.P + gen.Pick(r, 10, -10, 10, -10, 8, -8, 4, -4, 1, -1)
		if c.PreP < 1 || c.PreP > 16 {
			c.PreP = 1 + r.Intn(16)
		}
		c.PreLevels = c.Levels + gen.Pick(r, -1, -1, 0, 1)
		if c.PreLevels < 0 || c.PreLevels > 6 {
			c.PreLevels = c.Levels
		}
		c.PreQuality = c.Quality
		if r.Chance(1, 4) {
			c.PreQuality = 1 + r.Intn(100)
		}
		cs = append(cs, c)
	}
	nMid, nBig := 600, 30
	if th {
		nMid, nBig = 12000, 500
	}
	for i := 0; i < nMid; i++ {
		r := gen.Sub(seed, "C12", "mid", i)
		c := mk("mid", r)
		c.W, c.H = 1+r.Intn(96), 1+r.Intn(96)
		cs = append(cs, c)
	}
	for i := 0; i < nBig; i++ {
		r := gen.Sub(seed, "C12", "big", i)
		c := mk("big", r)
		c.W, c.H = 97+r.Intn(416), 97+r.Intn(416)
		cs = append(cs, c)
	}
	return cs
}

func (c12) Exec(d any) mon.Result {
	c := d.(*j2kCase)
	res := mon.Hold()
	res.Cell(fmt.Sprintf("P=%02d/c=%d/signed=%v/ict=%v", c.P, c.C, c.Signed, c.MCT))
	res.Cell(fmt.Sprintf("levels=%d", c.Levels))
	res.Cell(fmt.Sprintf("quality=%03d", c.Quality))
	res.Cell("class=" + c.Class)
	res.Cell("gen=" + c.Gen)
	px := c.pixels()
	keep := append([]byte(nil), px...)
	if c.PreP > 0 {
		// the unrelated encode right before the judged one (its result is not judged)
		pre := j2kCase{W: 8, H: 8, C: 1, P: c.PreP, Levels: c.PreLevels, CBW: 16, CBH: 16, Layers: 1, Quality: c.PreQuality, Class: "noise", CSeed: c.CSeed ^ 0x51}
		func() {
			defer func() { _ = recover() }()
			_, _ = jpeg2000.NewEncoder(pre.params(false)).Encode(pre.pixels())
		}()
		res.AddFeat("preceded_by_unrelated_encode", 1)
	}
	cs, err := jpeg2000.NewEncoder(c.params(false)).Encode(px)
	if err != nil {
		return mon.Violation("encode-error", err.Error())
	}
	if firstDiff(px, keep) >= 0 {
		return mon.Violation("source-modified", "Encode modified the caller's pixel buffer")
	}
	inf, werr := ref.WalkJ2K(cs)
	if werr != nil {
		return mon.Violation("stream-malformed", werr.Error())
	}
	if inf.COD.Transform != 0 {
		return mon.Violation("header-transform", "COD declares the reversible transform for Lossless=false")
	}
	if inf.SIZ.Xsiz-inf.SIZ.XOsiz != c.W || inf.SIZ.Ysiz-inf.SIZ.YOsiz != c.H || inf.SIZ.Csiz != c.C {
		return mon.Violation("header-geometry", fmt.Sprintf("SIZ declares %dx%dx%d", inf.SIZ.Xsiz-inf.SIZ.XOsiz, inf.SIZ.Ysiz-inf.SIZ.YOsiz, inf.SIZ.Csiz))
	}
	levels := inf.COD.Levels
	nb := 3*levels + 1
	steps := make([]float64, nb)
	for b := 0; b < nb; b++ {
		s, err := inf.StepSize(b, c.P)
		if err != nil {
			return mon.Violation("stream-malformed", err.Error())
		}
		steps[b] = s
	}
	dec := jpeg2000.NewDecoder()
	if err := dec.Decode(cs); err != nil {
		return mon.Violation("decode-error", err.Error())
	}
	if dec.Width() != c.W || dec.Height() != c.H || dec.Components() != c.C || dec.BitDepth() != c.P || dec.IsSigned() != c.Signed {
		return mon.Violation("geometry", fmt.Sprintf("decoder reports %dx%d c=%d P=%d signed=%v", dec.Width(), dec.Height(), dec.Components(), dec.BitDepth(), dec.IsSigned()))
	}
	out := append([]byte(nil), dec.GetPixelData()...)
	// the decoded image is what the Decoder hands out on every read, not only on the first
	if again := dec.GetPixelData(); firstDiff(again, out) >= 0 || len(again) != len(out) {
		return mon.Violation("reread-differs", fmt.Sprintf("a second GetPixelData() on the same Decoder differs from the first at byte %d (len %d vs %d)", firstDiff(again, out), len(again), len(out)))
	}
	if len(out) != len(px) {
		return mon.Violation("length", fmt.Sprintf("decoded %d bytes, expected %d", len(out), len(px)))
	}
	exact := c.W*c.H <= 4096
	G := ref.GainMaps(c.W, c.H, levels, exact)
	n := c.W * c.H
	T := make([]float64, n)
	for b := 0; b < nb; b++ {
		for i := 0; i < n; i++ {
			T[i] += steps[b] * G[b][i]
		}
	}
	A := 2.0
	if c.P > 12 {
		A = 4
	}
	ict := inf.COD.MCT != 0 && c.C == 3
	if ict {
		A *= 2
	}
	res.Cell(fmt.Sprintf("exactGains=%v", exact))
	src, got := gen.Unpack(px, c.P), gen.Unpack(out, c.P)
	toSigned := func(v int) int {
		if c.Signed && v >= 1<<uint(c.P-1) {
			return v - (1 << uint(c.P))
		}
		return v
	}
	worst := 0.0
	var alt []float64 // lazily: the source pushed through the exact analysis and the library's documented synthesis gain
	for i := range src {
		if got[i] >= 1<<uint(c.P) {
			return mon.Violation("out-of-range", fmt.Sprintf("sample %d decoded to container value %d, outside the declared %d-bit range", i, got[i], c.P))
		}
		s, g := toSigned(src[i]), toSigned(got[i])
		e := math.Abs(float64(g - s))
		t := T[i/c.C]
		if ict {
			switch i % 3 {
			case 0:
				t = t * (1 + 1.402)
			case 1:
				t = t * (1 + 0.344136 + 0.714136)
			default:
				t = t * (1 + 1.772)
			}
		}
		if e > t+A {
			// The library's synthesis (taken from OpenJPEG) scales high-pass samples by the
			// constant 1.625732422 instead of 2/K: a deterministic gain deviation of 3.3e-5 per
			// 1-D pass, independent of the quantiser.  A sample is also accepted when it is
			// within the same bound of the source pushed through that synthesis (DESIGN 6).
			if alt == nil {
				alt = c12HighGainTarget(c, src, levels, ict)
			}
			lo, hi := 0.0, float64(int(1)<<uint(c.P))-1
			if c.Signed {
				lo, hi = -float64(int(1)<<uint(c.P-1)), float64(int(1)<<uint(c.P-1))-1
			}
			if e2 := math.Abs(float64(g) - math.Min(hi, math.Max(lo, alt[i]))); e2 <= t+A {
				res.AddFeat("samples_accepted_through_the_openjpeg_synthesis_gain_model", 1)
				continue
			}
			x, y := (i/c.C)%c.W, i/c.C/c.W
			r := mon.Violation("step-bound-exceeded", fmt.Sprintf("sample %d (x=%d y=%d comp=%d): decoded %d, source %d, |err|=%.0f > bound %.2f + allowance %.0f (quality %d, levels %d, LL step %.4g)", i, x, y, i%c.C, g, s, e, t, A, c.Quality, levels, steps[0]))
			r.Cells = res.Cells
			return r.With("errOverRange", e/float64(int(1)<<uint(c.P))).With("quantOverflow", c12QuantOverflow(c, src, steps, levels, ict))
		}
		if t+A > 0 {
			if q := e / (t + A); q > worst {
				worst = q
			}
		}
	}
	res.AddFeat(fmt.Sprintf("slack_decile_%d", int(worst*10)), 1)
	res.AddFeat("stream_bytes", int64(len(cs)))
	return res
}

// c12HighGainTarget returns, per interleaved sample (signed domain, unclamped), the source
// image analysed exactly (independent float64 ICT and 9/7) and synthesised with the
// library's documented high-pass gain (ref.OpenJPEGHighGain), without any quantisation.
func c12HighGainTarget(c *j2kCase, src []int, levels int, ict bool) []float64 {
	n := c.W * c.H
	comp := make([][]float64, c.C)
	for k := range comp {
		comp[k] = make([]float64, n)
	}
	shift := 0.0
	if !c.Signed {
		shift = float64(int(1) << uint(c.P-1))
	}
	for i, v := range src {
		if c.Signed && v >= 1<<uint(c.P-1) {
			v -= 1 << uint(c.P)
		}
		comp[i%c.C][i/c.C] = float64(v) - shift
	}
	if ict {
		for i := 0; i < n; i++ {
			r, g, b := comp[0][i], comp[1][i], comp[2][i]
			comp[0][i] = 0.299*r + 0.587*g + 0.114*b
			comp[1][i] = -0.168735892*r - 0.331264108*g + 0.5*b
			comp[2][i] = 0.5*r - 0.418687589*g - 0.081312411*b
		}
	}
	for k := range comp {
		ref.Forward97(comp[k], c.W, c.H, levels)
		ref.Inverse97HighGain(comp[k], c.W, c.H, levels, ref.OpenJPEGHighGain)
	}
	if ict {
		for i := 0; i < n; i++ {
			y, cb, cr := comp[0][i], comp[1][i], comp[2][i]
			comp[0][i] = y + 1.402*cr
			comp[1][i] = y - 0.344136286*cb - 0.714136286*cr
			comp[2][i] = y + 1.772*cb
		}
	}
	out := make([]float64, len(src))
	for i := range out {
		out[i] = comp[i%c.C][i/c.C] + shift
	}
	return out
}

// c12QuantOverflow reports whether, for this source image and the step sizes
// the stream declares, some quantised coefficient index scaled by the 2^6
// fixed-point factor of the T1 input reaches 2^31 (computed with the
// independent forward 9/7 and ICT; threshold 2% below 2^31 to absorb
// float32/float64 differences).
func c12QuantOverflow(c *j2kCase, src []int, steps []float64, levels int, ict bool) bool {
	n := c.W * c.H
	comp := make([][]float64, c.C)
	for k := range comp {
		comp[k] = make([]float64, n)
	}
	shift := 0.0
	if !c.Signed {
		shift = float64(int(1) << uint(c.P-1))
	}
	for i, v := range src {
		if c.Signed && v >= 1<<uint(c.P-1) {
			v -= 1 << uint(c.P)
		}
		comp[i%c.C][i/c.C] = float64(v) - shift
	}
	if ict {
		for i := 0; i < n; i++ {
			r, g, b := comp[0][i], comp[1][i], comp[2][i]
			comp[0][i] = 0.299*r + 0.587*g + 0.114*b
			comp[1][i] = -0.16875*r - 0.33126*g + 0.5*b
			comp[2][i] = 0.5*r - 0.41869*g - 0.08131*b
		}
	}
	for k := range comp {
		ref.Forward97(comp[k], c.W, c.H, levels)
		for y := 0; y < c.H; y++ {
			for x := 0; x < c.W; x++ {
				b := ref.BandOf(x, y, c.W, c.H, levels)
				// the library's high bands carry the OpenJPEG 2/K scaling, i.e. the
				// same index coefficient/step as the standard normalisation
				q := math.Abs(comp[k][y*c.W+x]) / steps[b] * 64
				if q >= 0.98*2147483648.0 {
					return true
				}
			}
		}
	}
	return false
}
