package props

// hdrffCases are C04 cases found with `vcheck hunt C04 thorough t2.bio.flush_ff pktff`
// (development aid): in each of them at least one packet header ends exactly on a byte
// boundary with a final 0xFF, so the encoder owes a stuffing byte (ISO/IEC 15444-1 B.10.1)
// and the header reader must consume it (the defect repaired in 7459848).  They are part of
// every C04 run; the verifhook counters t2.bio.flush_ff / t2.bior.align_boundary_ff in the
// evidence show whether the path was really driven on the tree under test.
var hdrffCases = []j2kCase{
	{Gen: "hdrff", W: 267, H: 214, C: 3, P: 14, Signed: false, Levels: 1, CBW: 16, CBH: 16, PW: 32, PH: 32, Prog: 3, Layers: 1, MCT: false, Class: "varnoise", CSeed: 5349482191554538},
	{Gen: "hdrff", W: 236, H: 284, C: 1, P: 12, Signed: false, Levels: 2, CBW: 16, CBH: 16, PW: 32, PH: 32, Prog: 0, Layers: 1, MCT: true, Class: "varnoise", CSeed: 2610235222635652803},
	{Gen: "hdrff", W: 198, H: 304, C: 3, P: 14, Signed: false, Levels: 2, CBW: 16, CBH: 16, PW: 32, PH: 32, Prog: 1, Layers: 1, MCT: false, Class: "varnoise", CSeed: 3389367783044822002},
	{Gen: "hdrff", W: 298, H: 250, C: 1, P: 12, Signed: false, Levels: 1, CBW: 16, CBH: 32, PW: 32, PH: 32, Prog: 1, Layers: 2, MCT: true, Class: "varnoise", CSeed: 11613339481330920362},
	{Gen: "hdrff", W: 234, H: 286, C: 1, P: 12, Signed: false, Levels: 1, CBW: 16, CBH: 16, PW: 32, PH: 32, Prog: 2, Layers: 1, MCT: false, Class: "varnoise", CSeed: 16242694749958180403},
	{Gen: "hdrff", W: 296, H: 310, C: 3, P: 10, Signed: false, Levels: 2, CBW: 16, CBH: 32, PW: 32, PH: 64, Prog: 0, Layers: 1, MCT: true, Class: "varnoise", CSeed: 5106143980114297681},
	{Gen: "hdrff", W: 254, H: 277, C: 3, P: 14, Signed: false, Levels: 1, CBW: 32, CBH: 16, PW: 32, PH: 64, Prog: 1, Layers: 2, MCT: false, Class: "varnoise", CSeed: 5015665945501574308},
	{Gen: "hdrff", W: 252, H: 311, C: 1, P: 12, Signed: false, Levels: 1, CBW: 16, CBH: 16, PW: 32, PH: 64, Prog: 0, Layers: 1, MCT: true, Class: "varnoise", CSeed: 13613431384558189783},
	{Gen: "hdrff", W: 254, H: 289, C: 3, P: 12, Signed: false, Levels: 1, CBW: 16, CBH: 16, PW: 64, PH: 64, Prog: 1, Layers: 1, MCT: false, Class: "varnoise", CSeed: 15880381036638180870},
	{Gen: "hdrff", W: 215, H: 242, C: 3, P: 12, Signed: false, Levels: 2, CBW: 16, CBH: 16, PW: 32, PH: 32, Prog: 0, Layers: 1, MCT: true, Class: "varnoise", CSeed: 10037862545583590118},
	{Gen: "hdrff", W: 264, H: 305, C: 3, P: 14, Signed: true, Levels: 3, CBW: 16, CBH: 32, PW: 32, PH: 64, Prog: 1, Layers: 1, MCT: true, Class: "varnoise", CSeed: 12112237634135177523},
	{Gen: "hdrff", W: 244, H: 298, C: 1, P: 10, Signed: false, Levels: 1, CBW: 16, CBH: 16, PW: 32, PH: 32, Prog: 1, Layers: 1, MCT: true, Class: "varnoise", CSeed: 14916788948546740901},
	{Gen: "hdrff", W: 277, H: 239, C: 1, P: 12, Signed: false, Levels: 3, CBW: 16, CBH: 16, PW: 32, PH: 32, Prog: 3, Layers: 1, MCT: false, Class: "varnoise", CSeed: 17146439224098098858},
	{Gen: "hdrff", W: 199, H: 237, C: 3, P: 16, Signed: true, Levels: 3, CBW: 16, CBH: 16, PW: 32, PH: 32, Prog: 2, Layers: 2, MCT: true, Class: "varnoise", CSeed: 14092794694301896139},
	{Gen: "hdrff", W: 208, H: 317, C: 3, P: 16, Signed: false, Levels: 2, CBW: 16, CBH: 32, PW: 64, PH: 32, Prog: 0, Layers: 2, MCT: false, Class: "varnoise", CSeed: 9648860079795517600},
	{Gen: "hdrff", W: 273, H: 247, C: 1, P: 12, Signed: false, Levels: 1, CBW: 16, CBH: 32, PW: 32, PH: 32, Prog: 3, Layers: 1, MCT: true, Class: "varnoise", CSeed: 16624074489402979421},
}
