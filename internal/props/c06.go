package props

import (
	"encoding/json"
	"fmt"
	"os"
	"path/filepath"

	dcodec "github.com/cocosip/go-dicom/pkg/imaging/codec"

	"github.com/cocosip/go-dicom-codecs/jpeg2000"
	"github.com/cocosip/go-dicom-codecs/jpeg2000/htj2k"
	"github.com/cocosip/go-dicom-codecs/jpeg2000/t2"

	"verif/internal/gen"
	"verif/internal/mon"
)

// C06 — HTJ2K lossless (.201/.202): exact round trip and exact third-party decode.

// RepoDir is the library checkout (fixtures are read from it).
var RepoDir = func() string {
	if d := os.Getenv("VERIF_REPO"); d != "" {
		return d
	}
	return "/repo"
}()

type c06Case struct {
	Gen    string `json:"gen"`
	TS     string `json:"ts,omitempty"`
	W      int    `json:"w,omitempty"`
	H      int    `json:"h,omitempty"`
	BA     int    `json:"ba,omitempty"`
	BS     int    `json:"bs,omitempty"`
	SPP    int    `json:"spp,omitempty"`
	PR     int    `json:"pr,omitempty"`
	PKind  string `json:"pkind,omitempty"`
	BW     int    `json:"bw,omitempty"`
	BH     int    `json:"bh,omitempty"`
	Levels int    `json:"levels,omitempty"`
	Class  string `json:"class,omitempty"`
	Aux    int    `json:"aux,omitempty"`
	CSeed  uint64 `json:"cseed,omitempty"`
	// fixture cases
	Fixture string `json:"fixture,omitempty"`
	Stream  string `json:"stream,omitempty"`
}

type c06 struct{}

func init() { register(c06{}) }

func (c06) ID() string { return "C06" }
func (c06) Rule() string {
	return "(rt) registry codecs .201/.202: Encode then Decode, decoded frame byte-equal to the source; typed htj2k.Parameters, generic parameters and nil; BlockWidth/Height in {4..64}, NumLevels 0..6; sizes: all small sizes, 1xN / Nx1 up to 600, sampled grid to 80x80, random to 600, 888x459, (dense) full 64x64 code-blocks of 12..16-bit noise; contents: full-depth noise, all-zero after level shift, impulses, low-amplitude noise, constant. " +
		"(fixture) every lossless codestream of test-data/htj2k/interop/manifest.json decoded with jpeg2000.Decoder + htj2k.NewHTDecoder equals its input.raw (finite set, executed completely). " +
		"non-trivial: encoder accepted and the decoded frame was compared; distinct = distinct descriptor" +
		" (gain) gainmax content (two saturated colours in the sign pattern of one equivalent 5/3 analysis filter: largest legal wavelet coefficients) at every level count and block size"
}
func (c06) Assumptions() []string {
	return []string{"the bundled OpenJPH/fo-dicom fixtures and their input.raw files are what the manifest says they are"}
}
func (c06) Decode(raw json.RawMessage) (any, error) { return decodeInto[c06Case](raw) }

type htManifest struct {
	Fixtures []struct {
		Name          string `json:"name"`
		Width         int    `json:"width"`
		Height        int    `json:"height"`
		Components    int    `json:"components"`
		BitsAllocated int    `json:"bitsAllocated"`
		Signed        bool   `json:"signed"`
		InputRaw      string `json:"inputRaw"`
		Codestreams   map[string]struct {
			Path     string `json:"path"`
			Lossless bool   `json:"lossless"`
		} `json:"codestreams"`
	} `json:"fixtures"`
}

func loadHTManifest() (*htManifest, error) {
	b, err := os.ReadFile(filepath.Join(RepoDir, "test-data/htj2k/interop/manifest.json"))
	if err != nil {
		return nil, err
	}
	var m htManifest
	if err := json.Unmarshal(b, &m); err != nil {
		return nil, err
	}
	return &m, nil
}

func randC06Config(r *gen.Rand, c *c06Case) {
	c.TS = gen.Pick(r, ".201", ".202")
	c.BA = gen.Pick(r, 8, 16)
	c.BS = c.BA
	if r.Chance(1, 3) {
		c.BS = 2 + r.Intn(c.BA-1)
	}
	c.SPP = gen.Pick(r, 1, 1, 3)
	c.PR = gen.Pick(r, 0, 0, 1)
	c.PKind = gen.Pick(r, "typed", "typed", "generic", "nil")
	c.BW = gen.Pick(r, 4, 8, 16, 32, 64)
	c.BH = gen.Pick(r, 4, 8, 16, 32, 64)
	c.Levels = r.Intn(7)
	c.Class = gen.Pick(r, "noise", "noise", "noise", "zero", "impulses", "lowamp", "const", "smooth", "altext", "runs", "checker", "checker", "vstripes", "specks", "specks", "bands")
	c.Aux = 1 + r.Intn(6)
	c.CSeed = r.U64()
}

func (c06) Build(tier string, seed uint64) []any {
	var cs []any
	th := tier == "thorough"
	if m, err := loadHTManifest(); err == nil {
		for _, f := range m.Fixtures {
			for name, st := range f.Codestreams {
				if st.Lossless {
					cs = append(cs, &c06Case{Gen: "fixture", Fixture: f.Name, Stream: name})
				}
			}
		}
	}
	small, nGrid, nLine, nRand := 12, 600, 160, 30
	if th {
		small, nGrid, nLine, nRand = 24, 12800, 1500, 500
	}
	k := 0
	for w := 1; w <= small; w++ {
		for h := 1; h <= small; h++ {
			r := gen.Sub(seed, "C06", "small", k)
			k++
			c := &c06Case{Gen: "small", W: w, H: h}
			randC06Config(r, c)
			cs = append(cs, c)
		}
	}
	for i := 0; i < nGrid; i++ {
		r := gen.Sub(seed, "C06", "grid", i)
		c := &c06Case{Gen: "grid"}
		randC06Config(r, c)
		if th {
			c.W, c.H = 1+i%80, 1+(i/80)%80
		} else {
			c.W, c.H = 1+r.Intn(80), 1+r.Intn(80)
		}
		cs = append(cs, c)
	}
	for i := 0; i < nLine; i++ {
		r := gen.Sub(seed, "C06", "line", i)
		c := &c06Case{Gen: "line"}
		randC06Config(r, c)
		n := 1 + r.Intn(600)
		if r.Bool() {
			c.W, c.H = n, 1+r.Intn(2)
		} else {
			c.W, c.H = 1+r.Intn(2), n
		}
		cs = append(cs, c)
	}
	// (strip) one dimension beyond 2^15 (more than one default 32768 x 32768 precinct per
	// resolution level) with and without decomposition (1 x N / N x 1 force zero levels)
	for i, g := range [][2]int{{40000, 1}, {1, 40000}, {33000, 3}, {3, 33000}, {65535, 1}, {32769, 2}, {32768, 1}, {40000, 2}} {
		if !th && i >= 4 && (i+int(seed))%2 == 0 {
			continue
		}
		r := gen.Sub(seed, "C06", "strip", i)
		c := &c06Case{Gen: "strip", W: g[0], H: g[1]}
		randC06Config(r, c)
		if i%2 == 0 || g[0] == 1 || g[1] == 1 {
			c.Levels = 0
		}
		c.SPP = 1
		cs = append(cs, c)
	}
	// (gain) largest legal wavelet coefficients: two saturated colours in the sign pattern of
	// one equivalent 5/3 analysis filter, every level count 0..6 and block size
	nGain := 80
	if th {
		nGain = 1200
	}
	for i := 0; i < nGain; i++ {
		r := gen.Sub(seed, "C06", "gain", i)
		c := &c06Case{Gen: "gain", W: 12 + r.Intn(120), H: 12 + r.Intn(120)}
		if i%3 == 0 {
			c.W, c.H = 16*(1+r.Intn(6)), 16*(1+r.Intn(6))
		}
		randC06Config(r, c)
		c.Class = "gainmax"
		cs = append(cs, c)
	}
	for i := 0; i < nRand; i++ {
		r := gen.Sub(seed, "C06", "rand", i)
		c := &c06Case{Gen: "rand", W: 1 + r.Intn(600), H: 1 + r.Intn(600)}
		randC06Config(r, c)
		cs = append(cs, c)
	}
	// (dense) full 64x64 code-blocks of incompressible 12..16-bit samples: the longest
	// code-block segments the block coder can emit
	nDense := 16
	if th {
		nDense = 120
	}
	for i := 0; i < nDense; i++ {
		r := gen.Sub(seed, "C06", "dense", i)
		c := &c06Case{Gen: "dense"}
		randC06Config(r, c)
		c.BA, c.BS = 16, gen.Pick(r, 16, 16, 15, 14, 12)
		c.BW, c.BH = 64, 64
		c.Class = "noise"
		c.Levels = gen.Pick(r, 0, 0, 1, 2)
		c.W, c.H = (64<<uint(c.Levels))+r.Intn(70), (64<<uint(c.Levels))+r.Intn(70)
		if i == 0 {
			c.BS, c.Levels, c.W, c.H, c.SPP = 16, 0, 64, 64, 1
		}
		cs = append(cs, c)
	}
	r := gen.Sub(seed, "C06", "fixsize", 0)
	c := &c06Case{Gen: "rand", W: 888, H: 459}
	randC06Config(r, c)
	c.SPP = 1
	cs = append(cs, c)
	return cs
}

func (c *c06Case) frame() []byte {
	r := gen.New(c.CSeed)
	n := c.W * c.H * c.SPP
	var s []int
	switch c.Class {
	case "zero":
		// all-zero after the DC level shift (unsigned: 2^(P-1); signed: 0)
		v := 0
		if c.PR == 0 {
			v = 1 << uint(c.BA-1)
		}
		s = make([]int, n)
		for i := range s {
			s[i] = v
		}
	case "lowamp":
		// small amplitudes around the level-shift centre: u-values near the UVLC extension boundary
		mid := 0
		if c.PR == 0 {
			mid = 1 << uint(c.BA-1)
		}
		s = make([]int, n)
		amp := 1 << uint(c.Aux)
		for i := range s {
			s[i] = (mid + r.Intn(2*amp+1) - amp) & ((1 << uint(c.BA)) - 1)
		}
	default:
		s = gen.Content(r, c.Class, c.W, c.H, c.SPP, c.BS, 2)
	}
	return gen.PackN(s, c.BA/8)
}

func (c *c06Case) parameters() dcodec.Parameters {
	switch c.PKind {
	case "nil":
		return nil
	case "typed":
		p := htj2k.NewHTJ2KLosslessParameters()
		p.BlockWidth, p.BlockHeight, p.NumLevels = c.BW, c.BH, c.Levels
		return p
	default:
		p := dcodec.NewBaseParameters()
		p.SetParameter("blockWidth", c.BW)
		p.SetParameter("blockHeight", c.BH)
		p.SetParameter("numLevels", c.Levels)
		return p
	}
}

func (c06) Exec(d any) mon.Result {
	c := d.(*c06Case)
	res := mon.Hold()
	res.Cell("gen=" + c.Gen)
	if c.Gen == "fixture" {
		return c06Fixture(c, res)
	}
	res.Cell("ts=" + c.TS)
	res.Cell(fmt.Sprintf("ba=%d/spp=%d/pr=%d", c.BA, c.SPP, c.PR))
	res.Cell(fmt.Sprintf("block=%dx%d", c.BW, c.BH))
	res.Cell(fmt.Sprintf("levels=%d", c.Levels))
	res.Cell("class=" + c.Class)
	if c.W <= 3 && c.H <= 3 {
		res.Cell(fmt.Sprintf("tiny=%dx%d", c.W, c.H))
	}
	cd := Codec(c.TS)
	info := FrameInfo(c.W, c.H, c.BA, c.BS, c.SPP, c.PR, 0)
	frame := c.frame()
	keep := append([]byte(nil), frame...)
	enc := NewPD(info)
	if err := cd.Encode(NewPD(info, frame), enc, c.parameters()); err != nil {
		return mon.Violation("encode-error", err.Error())
	}
	if firstDiff(keep, frame) >= 0 {
		return mon.Violation("source-modified", "Encode modified the source frame")
	}
	if len(enc.Frames) != 1 {
		return mon.Violation("frame-count", fmt.Sprintf("%d encoded frames", len(enc.Frames)))
	}
	res.AddFeat("stream_bytes", int64(len(enc.Frames[0])))
	dec := NewPD(info)
	if err := cd.Decode(NewPD(info, enc.Frames[0]), dec, nil); err != nil {
		return mon.Violation("decode-error", err.Error())
	}
	if len(dec.Frames) != 1 {
		return mon.Violation("frame-count", fmt.Sprintf("%d decoded frames", len(dec.Frames)))
	}
	if i := firstDiff(dec.Frames[0], frame); i >= 0 {
		nd := 0
		for k := range frame {
			if k < len(dec.Frames[0]) && dec.Frames[0][k] != frame[k] {
				nd++
			}
		}
		res.V, res.Class = mon.Violated, "frame-mismatch"
		res.Msg = fmt.Sprintf("decoded differs at byte %d (len %d vs %d), %d bytes differ", i, len(dec.Frames[0]), len(frame), nd)
	}
	return res
}

func c06Fixture(c *c06Case, res mon.Result) mon.Result {
	m, err := loadHTManifest()
	if err != nil {
		return mon.Result{V: mon.Inconclusive, Msg: "manifest: " + err.Error()}
	}
	for _, f := range m.Fixtures {
		if f.Name != c.Fixture {
			continue
		}
		st, ok := f.Codestreams[c.Stream]
		if !ok {
			break
		}
		base := filepath.Join(RepoDir, "test-data/htj2k/interop")
		raw, err1 := os.ReadFile(filepath.Join(base, f.InputRaw))
		cs, err2 := os.ReadFile(filepath.Join(base, st.Path))
		if err1 != nil || err2 != nil {
			return mon.Result{V: mon.Inconclusive, Msg: fmt.Sprint("fixture files: ", err1, err2)}
		}
		dec := jpeg2000.NewDecoder()
		dec.SetBlockDecoderFactory(func(w, h int, _ int) t2.BlockDecoder { return htj2k.NewHTDecoder(w, h) })
		if err := dec.Decode(cs); err != nil {
			return mon.Violation("fixture-decode-error", c.Fixture+"/"+c.Stream+": "+err.Error())
		}
		if dec.Width() != f.Width || dec.Height() != f.Height || dec.Components() != f.Components {
			return mon.Violation("fixture-geometry", fmt.Sprintf("%s: decoder reports %dx%dx%d", c.Fixture, dec.Width(), dec.Height(), dec.Components()))
		}
		out := dec.GetPixelData()
		if i := firstDiff(out, raw); i >= 0 {
			return mon.Violation("fixture-mismatch", fmt.Sprintf("%s/%s: decoded differs from input.raw at byte %d (len %d vs %d)", c.Fixture, c.Stream, i, len(out), len(raw)))
		}
		res.AddFeat("fixture_streams_decoded", 1)
		return res
	}
	return mon.Result{V: mon.Inconclusive, Msg: "fixture not in manifest"}
}
