package props

import (
	"encoding/base64"
	"encoding/json"
	"fmt"
	"strings"

	"verif/internal/mon"
)

// C08 — no decoder panics.  C09 — decoding ends within time/memory bounded by
// input length and declared image size.  Both run the generators of
// hostile.go in resource-limited child processes.

type c08 struct{}
type c09 struct{}

func init() { register(c08{}); register(c09{}) }

const hostileRule = "seeds: small valid streams of every codec and geometry class produced by the library's encoders and by the independent encoders (1/3 components, 8/12/16 bit, tiles, layers, precincts, MCT/MCC/MCO markers, ROI, HT, restart intervals, tables 1-3), third-party .j2c fixtures, frozen crashers in corpus/. " +
	"generators: (trunc) every truncation length; (sweep) every byte of the header region (+32) x a value set (all 256 in the thorough tier); (field) every 16/32-bit position of the header region x {0,1,2,3,7FFF,8000,FFFF,..,len+-1}; (havoc) k-byte changes, block delete/duplicate, splices with other seeds, random bodies behind a valid prefix; (session) behaviour-feedback loop keeping mutants whose (error text | success geometry | panic) signature over all entry points is new; (rlefi) RLE FrameInfo sweep over {0,1,..,65535}. " +
	"every input is fed to every decoding entry point of its family: the 7 package-level Decode functions of the JPEG/JPEG-LS packages + codecs .50-.81, jpeg2000.Decoder with and without the HT block-decoder factory + codecs .90-.203, the RLE codec. evaluations/distinct = distinct (input, frame description) pairs per batch; decode_calls counts the calls."

func (c08) ID() string { return "C08" }
func (c08) Rule() string {
	return "oracle: recover() around every call + child exit status; a Go panic or a runtime fatal error other than out-of-memory is a violation (signature = message without digits @ first library function on the stack). " + hostileRule
}
func (c08) Assumptions() []string {
	return []string{"behaviour-signature feedback is coarser than branch coverage: deep T1/T2/HT states are reached mainly from the valid seeds and their body mutations"}
}
func (c08) Isolated() bool                          { return true }
func (c08) Decode(raw json.RawMessage) (any, error) { return decodeInto[hCase](raw) }
func (c08) Build(tier string, seed uint64) []any    { return hostileBuild("C08", tier, seed) }
func (c08) Exec(d any) mon.Result                   { return hostileExec("C08", false, d) }

func deathReplay(cur []byte) (json.RawMessage, string, int) {
	entry, fi, data := parseCur(cur)
	if entry == "" {
		return nil, "", 0
	}
	c := hCase{Kind: "single", Entry: entry, Data: base64.StdEncoding.EncodeToString(data), FI: fi}
	b, _ := json.Marshal(&c)
	return b, entry, len(data)
}

func (c08) ClassifyDeath(desc any, kind, msg, frame string, cur []byte) mon.Result {
	rp, entry, n := deathReplay(cur)
	if kind == "oom" || kind == "hang" {
		// memory and time belong to C09
		return mon.Result{V: mon.Inconclusive, Msg: fmt.Sprintf("child died (%s) in %s on a %d-byte input: C09's business", kind, entry, n), Replay: rp}
	}
	r := mon.Result{V: mon.Violated, Class: "fatal:" + kind + "@" + frame, Msg: fmt.Sprintf("%s brought the process down (%s) on a %d-byte input: %s", entry, kind, n, msg), NonTrivial: true, Replay: rp}
	return r.With("entry", entry)
}

func (c09) ID() string { return "C09" }
func (c09) Rule() string {
	return "oracle per decode call: thread CPU time (getrusage(RUSAGE_THREAD) on a locked OS thread) > 10 s => violated; heap allocated during the call (runtime/metrics /gc/heap/allocs) <= 512 MiB + 64*S => held, a 1 ms live-heap sampler above that budget or a fatal out-of-memory abort under RLIMIT_AS 3 GiB => violated, otherwise inconclusive; the watchdog kills a call after 90 s wall (violated, hang). S = width*height*components of the first frame header (SOF / SIZ) parsed independently; inputs > 64 KiB or declaring S > 2^22 are executed but out of domain. " + hostileRule
}
func (c09) Assumptions() []string {
	return []string{"thread CPU time is a lower bound of the wall time of the call; TotalAlloc delta is an upper bound of the peak"}
}
func (c09) Isolated() bool                          { return true }
func (c09) Decode(raw json.RawMessage) (any, error) { return decodeInto[hCase](raw) }
func (c09) Build(tier string, seed uint64) []any    { return hostileBuild("C09", tier, seed) }
func (c09) Exec(d any) mon.Result                   { return hostileExec("C09", true, d) }

func (c09) ClassifyDeath(desc any, kind, msg, frame string, cur []byte) mon.Result {
	rp, entry, n := deathReplay(cur)
	_, fi, data := parseCur(cur)
	S, _ := declaredSamples(data)
	if entry == "codecrle" && len(fi) == 7 {
		S = int64(fi[0]) * int64(fi[1]) * int64(fi[4]) * int64((fi[2]+7)/8)
	}
	if len(data) > 65536 || S > c09MaxS {
		return mon.Result{V: mon.OutOfDomain, Msg: fmt.Sprintf("child died (%s) on an out-of-domain input (S=%d, %d bytes)", kind, S, n), Replay: rp}
	}
	switch kind {
	case "oom":
		r := mon.Result{V: mon.Violated, Class: "oom:" + entry + "@" + frame, Msg: fmt.Sprintf("%s: fatal out-of-memory under RLIMIT_AS on a %d-byte input declaring %d samples: %s", entry, n, S, msg), NonTrivial: true, Replay: rp}
		return r.With("entry", entry)
	case "hang":
		r := mon.Result{V: mon.Violated, Class: "hang:" + entry + "@" + frame, Msg: fmt.Sprintf("%s did not return within the 90 s watchdog on a %d-byte input declaring %d samples", entry, n, S), NonTrivial: true, Replay: rp}
		return r.With("entry", entry)
	}
	// other fatal errors are C08's business
	return mon.Result{V: mon.Inconclusive, Msg: fmt.Sprintf("child died (%s) in %s: C08's business", kind, entry), Replay: rp}
}

// NeedsConfirm: CPU-time and hang verdicts are taken under full machine load.
func (c09) NeedsConfirm(r mon.Result) bool {
	return strings.HasPrefix(r.Class, "time:") || strings.HasPrefix(r.Class, "hang:")
}
