package props

import (
	"encoding/json"
	"fmt"

	"github.com/cocosip/go-dicom-codecs/jpeg2000"

	"verif/internal/gen"
	"verif/internal/mon"
)

// j2kCase is the descriptor of the JPEG 2000 encoder-object properties
// (C04 single tile reversible, C19 tiled reversible, C12 irreversible).
type j2kCase struct {
	Gen     string `json:"gen"`
	W       int    `json:"w"`
	H       int    `json:"h"`
	C       int    `json:"c"`
	P       int    `json:"p"`
	Signed  bool   `json:"signed"`
	Levels  int    `json:"levels"`
	CBW     int    `json:"cbw"`
	CBH     int    `json:"cbh"`
	PW      int    `json:"pw"`
	PH      int    `json:"ph"`
	Prog    int    `json:"prog"`
	Layers  int    `json:"layers"`
	MCT     bool   `json:"mct"`
	TW      int    `json:"tw,omitempty"`
	TH      int    `json:"th,omitempty"`
	Quality int    `json:"quality,omitempty"`
	// multi-layer rate control (C19): TargetRatio>0 requests global rate
	// allocation, Append adds the final lossless layer
	Ratio  float64 `json:"ratio,omitempty"`
	PCRD   bool    `json:"pcrd,omitempty"`
	Append bool    `json:"append,omitempty"`
	// NatRatio > 0: TargetRatio is set to NatRatio times the ratio this image achieves without a
	// rate target (measured by a preliminary encode in Exec): rate control that converges at once
	NatRatio float64 `json:"natratio,omitempty"`
	Class    string  `json:"class"`
	CSeed    uint64  `json:"cseed"`
	// C12 hist: an unrelated irreversible encode (8x8, this precision / levels / quality) is made
	// right before the judged one
	PreP       int `json:"prep,omitempty"`
	PreLevels  int `json:"prelevels,omitempty"`
	PreQuality int `json:"prequality,omitempty"`
}

func (c *j2kCase) params(lossless bool) *jpeg2000.EncodeParams {
	p := jpeg2000.DefaultEncodeParams(c.W, c.H, c.C, c.P, c.Signed)
	p.Lossless = lossless
	p.NumLevels = c.Levels
	p.CodeBlockWidth, p.CodeBlockHeight = c.CBW, c.CBH
	p.PrecinctWidth, p.PrecinctHeight = c.PW, c.PH
	p.ProgressionOrder = uint8(c.Prog)
	p.NumLayers = c.Layers
	p.EnableMCT = c.MCT
	p.TileWidth, p.TileHeight = c.TW, c.TH
	if c.Quality > 0 {
		p.Quality = c.Quality
	}
	p.TargetRatio = c.Ratio
	p.UsePCRDOpt = c.PCRD
	p.AppendLosslessLayer = c.Append
	return p
}

func (c *j2kCase) pixels() []byte {
	s := gen.Content(gen.New(c.CSeed), c.Class, c.W, c.H, c.C, c.P, 2)
	return gen.Pack(s, c.P)
}

// j2kReversibleRT encodes and decodes; class "" = held.
func j2kReversibleRT(c *j2kCase, res *mon.Result) {
	px := c.pixels()
	keep := append([]byte(nil), px...)
	if c.NatRatio > 0 {
		plain := *c
		plain.Ratio, plain.PCRD, plain.Append, plain.NatRatio = 0, false, false, 0
		if cs0, err := jpeg2000.NewEncoder(plain.params(true)).Encode(append([]byte(nil), px...)); err == nil && len(cs0) > 0 {
			cc := *c
			cc.Ratio = c.NatRatio * float64(len(px)) / float64(len(cs0))
			c = &cc
			res.AddFeat("natratio_cases", 1)
		}
	}
	enc := jpeg2000.NewEncoder(c.params(true))
	cs, err := enc.Encode(px)
	if err != nil {
		res.V, res.Class, res.Msg = mon.Violated, "encode-error", err.Error()
		return
	}
	if firstDiff(keep, px) >= 0 {
		res.V, res.Class, res.Msg = mon.Violated, "source-modified", "Encode modified the caller's pixel buffer"
		return
	}
	res.AddFeat("stream_bytes", int64(len(cs)))
	dec := jpeg2000.NewDecoder()
	if err := dec.Decode(cs); err != nil {
		res.V, res.Class, res.Msg = mon.Violated, "decode-error", err.Error()
		return
	}
	if dec.Width() != c.W || dec.Height() != c.H || dec.Components() != c.C || dec.BitDepth() != c.P || dec.IsSigned() != c.Signed {
		res.V, res.Class = mon.Violated, "geometry"
		res.Msg = fmt.Sprintf("decoder reports %dx%d c=%d P=%d signed=%v, expected %dx%d c=%d P=%d signed=%v", dec.Width(), dec.Height(), dec.Components(), dec.BitDepth(), dec.IsSigned(), c.W, c.H, c.C, c.P, c.Signed)
		return
	}
	out := append([]byte(nil), dec.GetPixelData()...)
	if again := dec.GetPixelData(); firstDiff(again, out) >= 0 || len(again) != len(out) {
		res.V, res.Class = mon.Violated, "reread-differs"
		res.Msg = fmt.Sprintf("a second GetPixelData() on the same Decoder differs from the first at byte %d (len %d vs %d)", firstDiff(again, out), len(again), len(out))
		return
	}
	if i, g, w := firstSampleDiff(out, px, c.P); i >= 0 {
		res.V, res.Class = mon.Violated, "pixel-mismatch"
		x, y := (i/c.C)%c.W, i/c.C/c.W
		msg := fmt.Sprintf("sample %d (x=%d y=%d comp=%d): decoded %d, source %d (len %d vs %d)", i, x, y, i%c.C, g, w, len(out), len(px))
		if c.TW > 0 && c.TH > 0 {
			msg += fmt.Sprintf("; tile (%d,%d) in-tile position (%d,%d)", x/c.TW, y/c.TH, x%c.TW, y%c.TH)
		}
		// how many samples differ
		nd := 0
		a, b := gen.Unpack(out, c.P), gen.Unpack(px, c.P)
		for k := range b {
			if k < len(a) && a[k] != b[k] {
				nd++
			}
		}
		res.Msg = msg + fmt.Sprintf("; %d of %d samples differ", nd, len(b))
		return
	}
}

func pow2s(lo, hi int) []int {
	var o []int
	for v := lo; v <= hi; v *= 2 {
		o = append(o, v)
	}
	return o
}

// ---------------------------------------------------------------- C04

type c04 struct{}

func init() { register(c04{}) }

func (c04) ID() string { return "C04" }
func (c04) Rule() string {
	return "jpeg2000.NewEncoder(reversible single-tile params).Encode -> NewDecoder().Decode; GetPixelData byte-equal, Width/Height/Components/BitDepth/IsSigned equal. " +
		"cases: (pairs) pairwise-covering sweep over (components 1..4, P 1..16, signed, levels 0..6, code-block w/h 4..64, precinct 0/32..256, progression 0..4, layers 1..6, MCT) on noise; (grid) every size in a small square plus sampled sizes to 40x40 with a seeded configuration; (cb) sizes around code-block multiples; (rand) sizes up to 600; (content) constant/extreme/impulse images (empty code-blocks and packets). " +
		"non-trivial: encoder accepted the configuration and the decoded samples were compared; distinct = distinct descriptor" +
		" (gain) gainmax content: two saturated colours in the sign pattern of one equivalent 5/3 analysis filter (largest legal wavelet coefficients), with and without the colour transform" +
		" (manyprec) 32x32 precincts on 2..4-component images of 520..640 samples a side (more than 256 precincts per resolution level)"
}
func (c04) Assumptions() []string {
	return []string{"self round trip through the public Encoder/Decoder objects"}
}
func (c04) Decode(raw json.RawMessage) (any, error) { return decodeInto[j2kCase](raw) }

func randJ2KConfig(r *gen.Rand, c *j2kCase) {
	c.C = gen.Pick(r, 1, 1, 2, 3, 3, 4)
	c.P = 1 + r.Intn(16)
	c.Signed = r.Chance(1, 3)
	c.Levels = r.Intn(7)
	c.CBW = gen.Pick(r, pow2s(4, 64)...)
	c.CBH = gen.Pick(r, pow2s(4, 64)...)
	c.PW = gen.Pick(r, 0, 0, 32, 64, 128, 256)
	c.PH = gen.Pick(r, 0, 0, 32, 64, 128, 256)
	if (c.PW == 0) != (c.PH == 0) {
		if r.Bool() {
			c.PW, c.PH = 0, 0
		} else if c.PW == 0 {
			c.PW = c.PH
		} else {
			c.PH = c.PW
		}
	}
	c.Prog = r.Intn(5)
	c.Layers = gen.Pick(r, 1, 1, 2, 3, 4, 5, 6)
	c.MCT = r.Bool()
	c.Class = "noise"
	c.CSeed = r.U64()
}

func (c04) Build(tier string, seed uint64) []any {
	var cs []any
	th := tier == "thorough"
	nPairs, nGridS, small, nRand, nContent := 800, 600, 8, 40, 300
	if th {
		nPairs, nGridS, small, nRand, nContent = 15000, 4800, 16, 1200, 6000
	}
	for i := 0; i < nPairs; i++ {
		r := gen.Sub(seed, "C04", "pairs", i)
		c := &j2kCase{Gen: "pairs"}
		randJ2KConfig(r, c)
		c.W, c.H = 1+r.Intn(96), 1+r.Intn(96)
		cs = append(cs, c)
	}
	k := 0
	for w := 1; w <= small; w++ {
		for h := 1; h <= small; h++ {
			r := gen.Sub(seed, "C04", "small", k)
			k++
			c := &j2kCase{Gen: "grid"}
			randJ2KConfig(r, c)
			c.W, c.H = w, h
			cs = append(cs, c)
		}
	}
	for i := 0; i < nGridS; i++ {
		r := gen.Sub(seed, "C04", "grid", i)
		c := &j2kCase{Gen: "grid"}
		randJ2KConfig(r, c)
		if th {
			c.W, c.H = 1+i%40, 1+(i/40)%40
		} else {
			c.W, c.H = 1+r.Intn(40), 1+r.Intn(40)
		}
		cs = append(cs, c)
	}
	// sizes around code-block multiples
	j := 0
	for _, cb := range []int{4, 8, 16, 32, 64} {
		offs := []int{cb - 1, cb, cb + 1, 2*cb - 1, 2 * cb, 2*cb + 1}
		for _, w := range offs {
			for _, h := range offs {
				if !th && (j+int(seed))%4 != 0 {
					j++
					continue
				}
				r := gen.Sub(seed, "C04", "cb", j)
				j++
				c := &j2kCase{Gen: "cb"}
				randJ2KConfig(r, c)
				c.CBW, c.CBH = cb, cb
				c.W, c.H = w, h
				if w*h > 4096 && c.C > 2 {
					c.C = 1
				}
				cs = append(cs, c)
			}
		}
	}
	for i := 0; i < nRand; i++ {
		r := gen.Sub(seed, "C04", "rand", i)
		c := &j2kCase{Gen: "rand"}
		randJ2KConfig(r, c)
		c.W, c.H = 1+r.Intn(600), 1+r.Intn(600)
		if c.W*c.H > 150000 {
			c.C = gen.Pick(r, 1, 3)
		}
		cs = append(cs, c)
	}
	// (dense) full 64x64 code-blocks of high-precision noise: the largest code-block
	// contributions (> 8 KiB per block, long pass lengths, Lblock growth)
	nDense := 24
	if th {
		nDense = 600
	}
	for i := 0; i < nDense; i++ {
		r := gen.Sub(seed, "C04", "dense", i)
		c := &j2kCase{Gen: "dense"}
		randJ2KConfig(r, c)
		c.P = gen.Pick(r, 14, 15, 16, 16)
		c.CBW, c.CBH = 64, 64
		c.Levels = gen.Pick(r, 0, 0, 1, 2)
		c.C = gen.Pick(r, 1, 1, 3)
		c.PW, c.PH = 0, 0
		c.Layers = gen.Pick(r, 1, 1, 2)
		c.W, c.H = 64+r.Intn(100), 64+r.Intn(100)
		if c.Levels > 0 {
			c.W, c.H = 128+r.Intn(80), 128+r.Intn(80)
		}
		cs = append(cs, c)
	}
	// (precgrid) several precincts per axis, resolution extents that are exact multiples of
	// the precinct size (and one off), every progression order
	nPrec := 160
	if th {
		nPrec = 4000
	}
	for i := 0; i < nPrec; i++ {
		r := gen.Sub(seed, "C04", "precgrid", i)
		c := &j2kCase{Gen: "precgrid"}
		randJ2KConfig(r, c)
		c.PW, c.PH = gen.Pick(r, 32, 64), gen.Pick(r, 32, 64)
		c.CBW, c.CBH = gen.Pick(r, 8, 16, 32), gen.Pick(r, 8, 16, 32)
		c.Levels = r.Intn(4)
		c.Prog = i % 5
		c.C = gen.Pick(r, 1, 1, 3)
		c.W = gen.Pick(r, 32, 64, 96, 128, 160, 192)<<uint(r.Intn(2)) + gen.Pick(r, 0, 0, 0, 1, -1)
		c.H = gen.Pick(r, 32, 64, 96, 128, 160)<<uint(r.Intn(2)) + gen.Pick(r, 0, 0, 0, 1, -1)
		if c.W > 260 {
			c.W = 257 - r.Intn(2)
		}
		if c.H > 260 {
			c.H = 257 - r.Intn(2)
		}
		cs = append(cs, c)
	}
	// (pktff) many non-empty packets (small precincts) whose code-block byte counts are spread
	// widely (content class varnoise).  A packet header whose bits end exactly on a byte boundary with a final 0xFF
	// (stuffing byte owed, about one non-trivial packet in two thousand) needs tens of
	// thousands of packets per run; the verifhook counters t2.bio.flush_ff /
	// t2.bior.align_boundary_ff in the evidence say how often it happened.
	nPkt := 24
	if th {
		nPkt = 600
	}
	for i := 0; i < nPkt; i++ {
		r := gen.Sub(seed, "C04", "pktff", i)
		c := &j2kCase{Gen: "pktff"}
		randJ2KConfig(r, c)
		c.C = gen.Pick(r, 1, 1, 3)
		c.P = gen.Pick(r, 10, 12, 14, 16)
		c.Levels = 1 + r.Intn(3)
		c.PW, c.PH = gen.Pick(r, 32, 32, 64), gen.Pick(r, 32, 32, 64)
		c.CBW, c.CBH = gen.Pick(r, 16, 16, 32), gen.Pick(r, 16, 16, 32)
		c.Layers = gen.Pick(r, 1, 1, 2)
		c.W, c.H = 192+r.Intn(130), 192+r.Intn(130)
		c.Class = "varnoise"
		cs = append(cs, c)
	}
	// (wide4) more than 4096 code-blocks in a row (deepest tag trees: 14 levels) and bands
	// beyond one default precinct: minimal 4-sample code-blocks on strips longer than 2^14 / 2^15
	for i, g := range [][3]int{{16388, 4, 0}, {5, 16400, 0}, {32780, 3, 1}, {40000, 2, 0}, {3, 33000, 0}, {16384, 4, 0}, {20000, 5, 1}, {65535, 1, 0}} {
		if !th && i >= 5 && (i+int(seed))%2 == 0 {
			continue
		}
		r := gen.Sub(seed, "C04", "wide4", i)
		c := &j2kCase{Gen: "wide4"}
		randJ2KConfig(r, c)
		c.W, c.H, c.Levels = g[0], g[1], g[2]
		c.C, c.P = 1, gen.Pick(r, 8, 12)
		c.CBW, c.CBH = 4, 4
		if i%3 == 2 {
			c.CBW, c.CBH = gen.Pick(r, 4, 8), gen.Pick(r, 4, 8)
		}
		c.PW, c.PH = 0, 0
		c.Layers = gen.Pick(r, 1, 1, 2)
		cs = append(cs, c)
	}
	// (manyprec) more than 256 precincts per resolution level (32x32 precincts on images of
	// 520..640 samples a side), 2..4 components: precinct indices that need more than one byte
	nMany := 6
	if th {
		nMany = 40
	}
	for i := 0; i < nMany; i++ {
		r := gen.Sub(seed, "C04", "manyprec", i)
		c := &j2kCase{Gen: "manyprec"}
		randJ2KConfig(r, c)
		c.W, c.H = 520+r.Intn(120), 520+r.Intn(120)
		if i%3 == 2 {
			c.W, c.H = 600+r.Intn(40), 440+r.Intn(40)
		}
		c.C = gen.Pick(r, 2, 3, 3, 4)
		c.P = gen.Pick(r, 8, 8, 12)
		c.PW, c.PH = 32, 32
		c.CBW, c.CBH = gen.Pick(r, 16, 32, 32), gen.Pick(r, 16, 32, 32)
		c.MCT = c.C == 3 && r.Bool()
		c.Layers = gen.Pick(r, 1, 1, 2)
		c.Class = gen.Pick(r, "noise", "varnoise", "smooth")
		cs = append(cs, c)
	}
	// (gain) two saturated colours in the sign pattern of one equivalent 5/3 analysis filter:
	// the largest wavelet coefficients a legal image produces (with the colour transform: beyond
	// the range the QCD exponents describe), every level count and code-block size
	nGain := 80
	if th {
		nGain = 1200
	}
	for i := 0; i < nGain; i++ {
		r := gen.Sub(seed, "C04", "gain", i)
		c := &j2kCase{Gen: "gain"}
		randJ2KConfig(r, c)
		c.W, c.H = 12+r.Intn(120), 12+r.Intn(120)
		if i%3 == 0 {
			c.W, c.H = 16*(1+r.Intn(6)), 16*(1+r.Intn(6))
		}
		c.C = gen.Pick(r, 3, 3, 3, 1)
		c.MCT = c.C == 3 && !r.Chance(1, 5)
		c.Class = "gainmax"
		cs = append(cs, c)
	}
	for i := range hdrffCases {
		c := hdrffCases[i]
		cs = append(cs, &c)
	}
	for i := 0; i < nContent; i++ {
		r := gen.Sub(seed, "C04", "content", i)
		c := &j2kCase{Gen: "content"}
		randJ2KConfig(r, c)
		c.W, c.H = 1+r.Intn(80), 1+r.Intn(80)
		c.Class = gen.Pick(r, "const", "twolevel", "altext", "impulses", "runs", "smooth", "ramp", "checker", "lowent")
		cs = append(cs, c)
	}
	return cs
}

func j2kCells(c *j2kCase, res *mon.Result) {
	res.Cell(fmt.Sprintf("P=%02d", c.P))
	res.Cell(fmt.Sprintf("c=%d", c.C))
	res.Cell(fmt.Sprintf("levels=%d", c.Levels))
	res.Cell(fmt.Sprintf("cb=%dx%d", c.CBW, c.CBH))
	res.Cell(fmt.Sprintf("prec=%dx%d", c.PW, c.PH))
	res.Cell(fmt.Sprintf("prog=%d", c.Prog))
	res.Cell(fmt.Sprintf("layers=%d", c.Layers))
	res.Cell(fmt.Sprintf("mct=%v/signed=%v", c.MCT, c.Signed))
	res.Cell("gen=" + c.Gen)
}

func (c04) Exec(d any) mon.Result {
	c := d.(*j2kCase)
	res := mon.Hold()
	j2kCells(c, &res)
	j2kReversibleRT(c, &res)
	return res
}

func (c04) Derive(d any) map[string]any { return j2kDerive(d.(*j2kCase)) }

// j2kDerive computes geometry facts used by known-finding predicates.
func j2kDerive(c *j2kCase) map[string]any {
	m := map[string]any{
		"minDim": min(c.W, c.H), "maxDim": max(c.W, c.H),
		"signedSubByte": c.Signed && c.P <= 8,
		"rct":           c.MCT && c.C == 3,
	}
	// smallest LL dimension after the requested number of levels
	w, h := c.W, c.H
	if c.TW > 0 {
		w = min(w, c.TW)
	}
	if c.TH > 0 {
		h = min(h, c.TH)
	}
	for l := 0; l < c.Levels; l++ {
		w, h = (w+1)/2, (h+1)/2
	}
	m["llW"], m["llH"] = w, h
	if c.TW > 0 && c.TH > 0 {
		tx, ty := (c.W+c.TW-1)/c.TW, (c.H+c.TH-1)/c.TH
		m["tilesX"], m["tilesY"], m["tiles"] = tx, ty, tx*ty
		m["oddTileOrigin"] = (tx > 1 && c.TW%2 == 1) || (ty > 1 && c.TH%2 == 1)
		m["lastTileW"], m["lastTileH"] = c.W-(tx-1)*c.TW, c.H-(ty-1)*c.TH
	}
	return m
}

// ExportJ2K renders a stored j2kCase with its pixel bytes (triage aid for
// stand-alone debugging programs).
func ExportJ2K(raw json.RawMessage) ([]byte, error) {
	var c j2kCase
	if err := json.Unmarshal(raw, &c); err != nil {
		return nil, err
	}
	return json.Marshal(map[string]any{"W": c.W, "H": c.H, "C": c.C, "P": c.P, "Signed": c.Signed, "Levels": c.Levels, "Cbw": c.CBW, "Cbh": c.CBH,
		"Pw": c.PW, "Ph": c.PH, "Prog": c.Prog, "Layers": c.Layers, "Mct": c.MCT, "Tw": c.TW, "Th": c.TH, "Quality": c.Quality, "Px": c.pixels()})
}

// ---------------------------------------------------------------- C19

type c19 struct{}

func init() { register(c19{}) }

func (c19) ID() string { return "C19" }
func (c19) Rule() string {
	return "jpeg2000 reversible multi-tile round trip (TileWidth/TileHeight set); oracle as C04 plus tile index / in-tile position of the first differing sample. " +
		"cases: (grid) every (tilesX,tilesY) in [1..8]^2 with an even and an odd tile size each; (partial) tile sizes that leave a last tile 1 sample wide/high; (small) tiles smaller than a code-block, 1xN and Nx1 tile grids; (rand) random tile sizes in [1..w]x[1..h] for images up to 96 (thorough: some up to 600); components {1,3}, P {8,12,16}, levels 0..5, layers 1..3 with and without rate allocation + final lossless layer. " +
		"non-trivial: more than one tile, encoder accepted, decoded samples compared; distinct = distinct descriptor" +
		" (gain) gainmax content: two saturated colours in the sign pattern of one equivalent 5/3 analysis filter (largest legal wavelet coefficients), with and without the colour transform"
}
func (c19) Assumptions() []string {
	return []string{"self round trip through the public Encoder/Decoder objects"}
}
func (c19) Decode(raw json.RawMessage) (any, error) { return decodeInto[j2kCase](raw) }
func (c19) Derive(d any) map[string]any             { return j2kDerive(d.(*j2kCase)) }

func randTileConfig(r *gen.Rand, c *j2kCase) {
	c.C = gen.Pick(r, 1, 1, 3)
	c.P = gen.Pick(r, 8, 12, 16)
	c.Signed = false
	c.Levels = r.Intn(6)
	c.CBW = gen.Pick(r, 4, 8, 16, 32, 64, 64)
	c.CBH = gen.Pick(r, 4, 8, 16, 32, 64, 64)
	c.PW, c.PH = 0, 0
	c.Prog = r.Intn(5)
	c.Layers = gen.Pick(r, 1, 1, 2, 3)
	c.MCT = r.Bool()
	if c.Layers > 1 && r.Chance(1, 2) {
		c.Ratio = gen.Pick(r, 2.0, 5.0, 10.0)
		c.PCRD = r.Bool()
		c.Append = true
	}
	c.Class = "noise"
	c.CSeed = r.U64()
}

func (c19) Build(tier string, seed uint64) []any {
	var cs []any
	th := tier == "thorough"
	k := 0
	// (grid)
	for tx := 1; tx <= 8; tx++ {
		for ty := 1; ty <= 8; ty++ {
			for _, odd := range []int{0, 1} {
				if !th && (tx+ty+odd+int(seed))%2 == 0 && tx*ty > 4 {
					continue
				}
				r := gen.Sub(seed, "C19", "grid", k)
				k++
				c := &j2kCase{Gen: "grid"}
				randTileConfig(r, c)
				tw := 2*(1+r.Intn(6)) + odd
				thh := 2*(1+r.Intn(6)) + odd
				c.TW, c.TH = tw, thh
				// last tile partial (1..tw wide)
				c.W = (tx-1)*tw + 1 + r.Intn(tw)
				c.H = (ty-1)*thh + 1 + r.Intn(thh)
				cs = append(cs, c)
			}
		}
	}
	nPartial, nSmall, nRand, nBig := 160, 160, 480, 8
	if th {
		nPartial, nSmall, nRand, nBig = 4000, 4000, 25000, 400
	}
	// (natratio) global rate allocation whose target is (almost) what the lossless stream
	// achieves anyway: the allocator's refinement loop converges on its first trial
	nNat := 60
	if th {
		nNat = 1500
	}
	for i := 0; i < nNat; i++ {
		r := gen.Sub(seed, "C19", "natratio", i)
		c := &j2kCase{Gen: "natratio"}
		randTileConfig(r, c)
		// at least two layers: with a single layer there is no room for the final lossless layer
		// the property speaks of, and a rate target legitimately truncates the only layer
		c.Layers = gen.Pick(r, 2, 2, 3, 4)
		c.PCRD, c.Append = gen.Pick(r, true, true, false), true
		c.Ratio = 0
		c.NatRatio = gen.Pick(r, 0.9, 0.96, 0.98, 1.0, 1.0, 1.02, 1.04, 1.1, 1.3)
		c.W, c.H = 8+r.Intn(88), 8+r.Intn(88)
		c.TW, c.TH = 1+(c.W-1)/(1+r.Intn(4)), 1+(c.H-1)/(1+r.Intn(4))
		if c.TW >= c.W && c.TH >= c.H {
			c.TW = (c.W + 1) / 2
		}
		c.Class = gen.Pick(r, "noise", "noise", "smooth", "varnoise")
		cs = append(cs, c)
	}
	for i := 0; i < nPartial; i++ {
		r := gen.Sub(seed, "C19", "partial", i)
		c := &j2kCase{Gen: "partial"}
		randTileConfig(r, c)
		c.TW, c.TH = 2+r.Intn(31), 2+r.Intn(31)
		c.W = c.TW*(1+r.Intn(4)) + gen.Pick(r, 0, 1, 1)
		c.H = c.TH*(1+r.Intn(4)) + gen.Pick(r, 0, 1, 1)
		cs = append(cs, c)
	}
	for i := 0; i < nSmall; i++ {
		r := gen.Sub(seed, "C19", "small", i)
		c := &j2kCase{Gen: "small"}
		randTileConfig(r, c)
		c.W, c.H = 1+r.Intn(40), 1+r.Intn(40)
		switch r.Intn(3) {
		case 0: // 1 x N tiles
			c.TW, c.TH = c.W, 1+r.Intn(c.H)
		case 1:
			c.TW, c.TH = 1+r.Intn(c.W), c.H
		default: // tiles smaller than a code-block
			c.TW, c.TH = 1+r.Intn(3), 1+r.Intn(3)
			c.W, c.H = 1+r.Intn(12), 1+r.Intn(12)
		}
		cs = append(cs, c)
	}
	for i := 0; i < nRand; i++ {
		r := gen.Sub(seed, "C19", "rand", i)
		c := &j2kCase{Gen: "rand"}
		randTileConfig(r, c)
		c.W, c.H = 1+r.Intn(96), 1+r.Intn(96)
		c.TW, c.TH = 1+r.Intn(c.W), 1+r.Intn(c.H)
		// keep the tile count bounded (<= 64 tiles per axis product ~ 4096 would be slow)
		for (c.W+c.TW-1)/c.TW*((c.H+c.TH-1)/c.TH) > 64 {
			if c.TW < c.W {
				c.TW++
			}
			if c.TH < c.H {
				c.TH++
			}
		}
		cs = append(cs, c)
	}
	// (gain) largest legal wavelet coefficients (gainmax content) on tiled images
	nGain := 60
	if tier == "thorough" {
		nGain = 900
	}
	for i := 0; i < nGain; i++ {
		r := gen.Sub(seed, "C19", "gain", i)
		c := &j2kCase{Gen: "gain"}
		randTileConfig(r, c)
		c.W, c.H = 24+r.Intn(120), 24+r.Intn(120)
		c.TW, c.TH = c.W/(1+r.Intn(4))+r.Intn(2), c.H/(1+r.Intn(4))+r.Intn(2)
		c.C = gen.Pick(r, 3, 3, 1)
		c.MCT = c.C == 3 && !r.Chance(1, 5)
		c.Class = "gainmax"
		cs = append(cs, c)
	}
	for i := 0; i < nBig; i++ {
		r := gen.Sub(seed, "C19", "big", i)
		c := &j2kCase{Gen: "big"}
		randTileConfig(r, c)
		c.W, c.H = 97+r.Intn(504), 97+r.Intn(504)
		c.TW, c.TH = c.W/(1+r.Intn(8))+r.Intn(2), c.H/(1+r.Intn(8))+r.Intn(2)
		cs = append(cs, c)
	}
	return cs
}

func (c19) Exec(d any) mon.Result {
	c := d.(*j2kCase)
	res := mon.Hold()
	j2kCells(c, &res)
	dv := j2kDerive(c)
	if t, ok := dv["tiles"].(int); ok {
		res.Cell(fmt.Sprintf("tiles=%dx%d", dv["tilesX"], dv["tilesY"]))
		res.Cell(fmt.Sprintf("oddTileOrigin=%v", dv["oddTileOrigin"]))
		if t <= 1 {
			res.NonTrivial = false
		}
	}
	j2kReversibleRT(c, &res)
	return res
}
