package props

import (
	"encoding/json"
	"fmt"

	dcodec "github.com/cocosip/go-dicom/pkg/imaging/codec"

	j2kl "github.com/cocosip/go-dicom-codecs/jpeg2000/lossless"

	"verif/internal/gen"
	"verif/internal/mon"
)

// C05 — JPEG 2000 lossless transfer syntaxes stay lossless under every
// accepted parameter set.

type c05Case struct {
	Gen   string `json:"gen"`
	TS    string `json:"ts"`
	W     int    `json:"w"`
	H     int    `json:"h"`
	BA    int    `json:"ba"`
	BS    int    `json:"bs"`
	SPP   int    `json:"spp"`
	PR    int    `json:"pr"`
	PKind string `json:"pkind"` // nil | typed | generic
	// parameter values (ignored for nil)
	Rate       int     `json:"rate"`
	RateLevels []int   `json:"rateLevels,omitempty"`
	Ratio      float64 `json:"ratio"`
	Layers     int     `json:"layers"`
	PCRD       bool    `json:"pcrd"`
	Levels     int     `json:"levels"`
	Prog       int     `json:"prog"`
	MCT        bool    `json:"mct"`
	Append     bool    `json:"append"`
	Frames     int     `json:"frames"`
	Class      string  `json:"class"`
	CSeed      uint64  `json:"cseed"`
	// Pre: a call made on the same codec instance right before the judged one.  "lossybag": Encode
	// with a generic parameter bag that is allowed to lose data (rate target, no final lossless
	// layer); "defmod": the same settings written into the object GetDefaultParameters() returned,
	// then an Encode with it; "decode": a Decode of an unrelated stream.  Its own result is not judged.
	Pre string `json:"pre,omitempty"`
}

type c05 struct{}

func init() { register(c05{}) }

func (c05) ID() string { return "C05" }
func (c05) Rule() string {
	return "registry codec of .90 / .92: Encode then Decode through the harness PixelData; every decoded frame byte-equal to its source. Domain guard: parameters nil, or AppendLosslessLayer=true, or (Rate=0 and TargetRatio=0); other objects are counted out-of-domain. " +
		"cases: (small) every size up to 6x6 with nil/default parameters; (grid) widths 1..40 x heights 1..80 with rotating parameter objects (typed and generic carrying the same keys): Rate, RateLevels ladders (default, descending sub-ladder, single level, all <= Rate), TargetRatio, NumLayers 1..10, PCRD, NumLevels 0..6, progression 0..4, MCT; (rand) sizes up to 600; (gain) three-component frames of two saturated complementary colours in the sign pattern of one 5/3 analysis filter (largest legal wavelet coefficients), default and typed parameters with the colour transform; (after) default parameters right after an Encode on the same instance with a lossy-capable generic bag / a modified GetDefaultParameters() object / a Decode; (norate) 48..247 square-ish noise images with AppendLosslessLayer=false, Rate=0, TargetRatio=0 through generic and typed objects. " +
		"non-trivial: in-domain, encoder accepted, all frames compared; distinct = distinct descriptor"
}
func (c05) Assumptions() []string {
	return []string{"self round trip through the registered codec instances; the domain guard is evaluated on the generated parameter values, not on the library's normalised copy"}
}
func (c05) Decode(raw json.RawMessage) (any, error) { return decodeInto[c05Case](raw) }

var c05DefaultLadder = []int{1280, 640, 320, 160, 80, 40, 20, 10, 5}

func randC05Params(r *gen.Rand, c *c05Case) {
	c.PKind = gen.Pick(r, "typed", "typed", "generic", "nil")
	c.Rate = gen.Pick(r, 0, 1, 2, 5, 10, 20, 20, 40, 80, 640, 1280)
	switch r.Intn(5) {
	case 0:
		c.RateLevels = nil // library default ladder
	case 1:
		c.RateLevels = append([]int(nil), c05DefaultLadder...)
	case 2: // descending sub-ladder
		for _, v := range c05DefaultLadder {
			if r.Bool() {
				c.RateLevels = append(c.RateLevels, v)
			}
		}
	case 3: // single level
		c.RateLevels = []int{gen.Pick(r, 5, 20, 80, 1280)}
	default: // ladder entirely <= Rate
		for _, v := range []int{5, 3, 2, 1} {
			if v <= c.Rate || c.Rate == 0 {
				c.RateLevels = append(c.RateLevels, v)
			}
		}
	}
	c.Ratio = gen.Pick(r, 0.0, 0.0, 1.0, 2.0, 7.5, 50.0, 100.0)
	c.Layers = 1 + r.Intn(10)
	c.PCRD = r.Bool()
	c.Levels = r.Intn(7)
	c.Prog = r.Intn(5)
	c.MCT = r.Bool()
	c.Append = !r.Chance(1, 4)
	// steer most cases into the property's domain
	if !c.Append && r.Chance(2, 3) {
		c.Rate, c.Ratio = 0, 0
	}
}

func randC05Frame(r *gen.Rand, c *c05Case) {
	c.TS = gen.Pick(r, ".90", ".92")
	if r.Bool() {
		c.BA, c.BS = 8, 2+r.Intn(7)
	} else {
		c.BA, c.BS = 16, 9+r.Intn(8)
	}
	c.SPP = gen.Pick(r, 1, 1, 3)
	c.PR = gen.Pick(r, 0, 0, 1)
	c.Frames = gen.Pick(r, 1, 1, 1, 2)
	c.Class = gen.Pick(r, "noise", "noise", "noise", "smooth", "runs", "const", "altext", "impulses")
	c.CSeed = r.U64()
}

func (c05) Build(tier string, seed uint64) []any {
	var cs []any
	th := tier == "thorough"
	k := 0
	for w := 1; w <= 6; w++ {
		for h := 1; h <= 6; h++ {
			r := gen.Sub(seed, "C05", "small", k)
			k++
			c := &c05Case{Gen: "small", W: w, H: h}
			randC05Frame(r, c)
			randC05Params(r, c)
			c.PKind = gen.Pick(r, "nil", "default")
			cs = append(cs, c)
		}
	}
	nGrid, nRand := 1000, 30
	if th {
		nGrid, nRand = 9600, 600
	}
	for i := 0; i < nGrid; i++ {
		r := gen.Sub(seed, "C05", "grid", i)
		c := &c05Case{Gen: "grid"}
		if th {
			c.W, c.H = 1+i%40, 1+(i/40)%80
		} else {
			c.W, c.H = 1+r.Intn(40), 1+r.Intn(80)
		}
		randC05Frame(r, c)
		randC05Params(r, c)
		cs = append(cs, c)
	}
	// (norate) the second half of the property's domain on images large enough for a rate
	// target to bite: no final lossless layer requested and no rate target (Rate = 0,
	// TargetRatio = 0), typed and generic parameter objects, noise
	nNoRate := 32
	if th {
		nNoRate = 800
	}
	for i := 0; i < nNoRate; i++ {
		r := gen.Sub(seed, "C05", "norate", i)
		c := &c05Case{Gen: "norate", W: 48 + r.Intn(200), H: 48 + r.Intn(200)}
		randC05Frame(r, c)
		randC05Params(r, c)
		c.PKind = gen.Pick(r, "generic", "generic", "typed")
		c.Append, c.Rate, c.Ratio = false, 0, 0
		c.Class = "noise"
		c.Frames = 1
		cs = append(cs, c)
	}
	// (strip) one dimension beyond 2^15 (more than one default 32768 x 32768 precinct per
	// resolution level), zero and default decomposition levels
	for i, g := range [][2]int{{40000, 1}, {1, 40000}, {33000, 3}, {3, 33000}, {65535, 1}, {32769, 2}, {32768, 1}, {40000, 2}} {
		if !th && i >= 4 && (i+int(seed))%2 == 0 {
			continue
		}
		r := gen.Sub(seed, "C05", "strip", i)
		c := &c05Case{Gen: "strip", W: g[0], H: g[1]}
		randC05Frame(r, c)
		randC05Params(r, c)
		c.PKind = gen.Pick(r, "typed", "generic")
		c.Append = true
		c.SPP, c.Frames = 1, 1
		if i%2 == 0 {
			c.Levels = 0
		}
		cs = append(cs, c)
	}
	// (gain) saturated complementary colours in the sign pattern of one analysis filter: wavelet
	// coefficients at the top of (and, after the colour transform, beyond) the range the QCD
	// exponents describe; default parameters and typed objects with the colour transform on
	nGain := 60
	if th {
		nGain = 600
	}
	for i := 0; i < nGain; i++ {
		r := gen.Sub(seed, "C05", "gain", i)
		c := &c05Case{Gen: "gain", W: 12 + r.Intn(120), H: 12 + r.Intn(120)}
		if i%3 == 0 {
			c.W, c.H = 16*(1+r.Intn(5)), 16*(1+r.Intn(5))
		}
		randC05Frame(r, c)
		randC05Params(r, c)
		c.PKind = gen.Pick(r, "nil", "default", "typed", "generic")
		c.Append, c.MCT = true, true
		c.SPP, c.Frames = gen.Pick(r, 3, 3, 3, 1), 1
		c.Class = "gainmax"
		cs = append(cs, c)
	}
	// (after) default parameters right after a call that was allowed to lose data, on the same
	// registered instance: what one caller configured must not become another caller's defaults
	nAfter := 24
	if th {
		nAfter = 240
	}
	for i := 0; i < nAfter; i++ {
		r := gen.Sub(seed, "C05", "after", i)
		c := &c05Case{Gen: "after", W: 40 + r.Intn(120), H: 40 + r.Intn(120)}
		randC05Frame(r, c)
		randC05Params(r, c)
		c.PKind = gen.Pick(r, "nil", "default")
		c.Pre = gen.Pick(r, "lossybag", "defmod", "lossybag", "defmod", "decode")
		c.Class, c.Frames = "noise", 1
		cs = append(cs, c)
	}
	for i := 0; i < nRand; i++ {
		r := gen.Sub(seed, "C05", "rand", i)
		c := &c05Case{Gen: "rand", W: 1 + r.Intn(600), H: 1 + r.Intn(600)}
		randC05Frame(r, c)
		randC05Params(r, c)
		c.Frames = 1
		cs = append(cs, c)
	}
	return cs
}

func (c *c05Case) inDomain() bool {
	if c.PKind == "nil" || c.PKind == "default" {
		return true
	}
	return c.Append || (c.Rate == 0 && c.Ratio == 0)
}

func (c *c05Case) parameters(cd dcodec.Codec) dcodec.Parameters {
	switch c.PKind {
	case "nil":
		return nil
	case "default":
		return cd.GetDefaultParameters()
	case "typed":
		p := j2kl.NewLosslessParameters()
		p.Rate, p.TargetRatio, p.NumLayers, p.UsePCRDOpt = c.Rate, c.Ratio, c.Layers, c.PCRD
		p.NumLevels, p.ProgressionOrder, p.AllowMCT, p.AppendLosslessLayer = c.Levels, uint8(c.Prog), c.MCT, c.Append
		if c.RateLevels != nil {
			p.RateLevels = append([]int(nil), c.RateLevels...)
		}
		return p
	default:
		p := dcodec.NewBaseParameters()
		p.SetParameter("rate", c.Rate)
		if c.RateLevels != nil {
			p.SetParameter("rateLevels", append([]int(nil), c.RateLevels...))
		}
		p.SetParameter("targetRatio", c.Ratio)
		p.SetParameter("numLayers", c.Layers)
		p.SetParameter("usePCRDOpt", c.PCRD)
		p.SetParameter("numLevels", c.Levels)
		p.SetParameter("progressionOrder", c.Prog)
		p.SetParameter("allowMCT", c.MCT)
		p.SetParameter("appendLosslessLayer", c.Append)
		return p
	}
}

func (c05) Exec(d any) mon.Result {
	c := d.(*c05Case)
	res := mon.Hold()
	res.Cell("ts=" + c.TS)
	res.Cell("pkind=" + c.PKind)
	res.Cell(fmt.Sprintf("ba/bs=%d/%02d", c.BA, c.BS))
	res.Cell(fmt.Sprintf("levels=%d", c.Levels))
	res.Cell(fmt.Sprintf("layers=%02d", c.Layers))
	res.Cell(fmt.Sprintf("rate=%d", c.Rate))
	res.Cell(fmt.Sprintf("append=%v", c.Append))
	if !c.inDomain() {
		return mon.Result{V: mon.OutOfDomain, Msg: "parameter object requests a rate target without the final lossless layer"}
	}
	cd := Codec(c.TS)
	info := FrameInfo(c.W, c.H, c.BA, c.BS, c.SPP, c.PR, 0)
	var frames, keep [][]byte
	for f := 0; f < c.Frames; f++ {
		s := gen.Content(gen.New(gen.Mix(c.CSeed, uint64(f))), c.Class, c.W, c.H, c.SPP, c.BS, 2)
		b := gen.PackN(s, c.BA/8)
		frames = append(frames, b)
		keep = append(keep, append([]byte(nil), b...))
	}
	if c.Pre != "" {
		c05Pre(cd, c)
		res.AddFeat("pre_"+c.Pre, 1)
	}
	src := NewPD(info, frames...)
	enc := NewPD(info)
	if err := cd.Encode(src, enc, c.parameters(cd)); err != nil {
		return mon.Violation("encode-error", err.Error())
	}
	if len(enc.Frames) != c.Frames {
		return mon.Violation("frame-count", fmt.Sprintf("%d encoded frames for %d inputs", len(enc.Frames), c.Frames))
	}
	for f := range frames {
		if firstDiff(frames[f], keep[f]) >= 0 {
			return mon.Violation("source-modified", "Encode modified a source frame")
		}
		res.AddFeat("stream_bytes", int64(len(enc.Frames[f])))
	}
	dec := NewPD(info)
	if err := cd.Decode(NewPD(info, enc.Frames...), dec, nil); err != nil {
		return mon.Violation("decode-error", err.Error())
	}
	if len(dec.Frames) != c.Frames {
		return mon.Violation("frame-count", fmt.Sprintf("%d decoded frames for %d inputs", len(dec.Frames), c.Frames))
	}
	for f := range frames {
		if i := firstDiff(dec.Frames[f], frames[f]); i >= 0 {
			nd := 0
			for k := range frames[f] {
				if k < len(dec.Frames[f]) && dec.Frames[f][k] != frames[f][k] {
					nd++
				}
			}
			res.V, res.Class = mon.Violated, "frame-mismatch"
			res.Msg = fmt.Sprintf("frame %d differs at byte %d (len %d vs %d), %d bytes differ: the lossless-only syntax lost data", f, i, len(dec.Frames[f]), len(frames[f]), nd)
			return res
		}
	}
	return res
}

// c05Pre makes the unjudged call of c.Pre on the codec instance cd.
func c05Pre(cd dcodec.Codec, c *c05Case) {
	defer func() { _ = recover() }() // panics are C08 / C17 matters
	r := gen.New(gen.Mix(c.CSeed, 0x9e37))
	w, h := 48+r.Intn(40), 48+r.Intn(40)
	info := FrameInfo(w, h, 8, 8, 1, 0, 0)
	px := gen.PackN(gen.Content(r, "noise", w, h, 1, 8, 2), 1)
	set := func(p dcodec.Parameters) {
		p.SetParameter("rate", 4000)
		p.SetParameter("appendLosslessLayer", false)
		p.SetParameter("numLayers", 1)
		p.SetParameter("numLevels", 1+r.Intn(3))
		p.SetParameter("allowMCT", false)
	}
	switch c.Pre {
	case "lossybag":
		p := dcodec.NewBaseParameters()
		set(p)
		_ = cd.Encode(NewPD(info, px), NewPD(info), p)
	case "defmod":
		p := cd.GetDefaultParameters()
		set(p)
		_ = cd.Encode(NewPD(info, px), NewPD(info), p)
	case "decode":
		enc := NewPD(info)
		if cd.Encode(NewPD(info, px), enc, nil) == nil {
			_ = cd.Decode(NewPD(info, enc.Frames...), NewPD(info), nil)
		}
	}
}
