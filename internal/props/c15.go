package props

import (
	"bytes"
	"encoding/json"
	"fmt"
	"image"
	"image/color"
	"image/jpeg"

	"github.com/cocosip/go-dicom-codecs/jpeg/baseline"
	"github.com/cocosip/go-dicom-codecs/jpeg/extended"

	"verif/internal/gen"
	"verif/internal/mon"
	"verif/internal/ref"
)

// C15 — DCT codecs agree with an independent JPEG implementation (image/jpeg).

type c15Case struct {
	Gen     string `json:"gen"`
	Dir     string `json:"dir"`           // A: library encoder -> image/jpeg ; B: independent encoder -> library decoders
	Codec   string `json:"codec"`         // A: baseline|extended (encoder) ; B: baseline|extended (decoder)
	Src     string `json:"src,omitempty"` // B: stdlib | ref
	W       int    `json:"w"`
	H       int    `json:"h"`
	C       int    `json:"c"`
	Quality int    `json:"quality"`
	Class   string `json:"class"`
	CSeed   uint64 `json:"cseed"`
	// ref encoder layout
	HY       int    `json:"hy,omitempty"`
	VY       int    `json:"vy,omitempty"`
	Optimise bool   `json:"optimise,omitempty"`
	DRI      int    `json:"dri,omitempty"`
	App      string `json:"app,omitempty"`
	SplitDQT bool   `json:"splitDqt,omitempty"`
}

type c15 struct{}

func init() { register(c15{}) }

func (c15) ID() string { return "C15" }
func (c15) Rule() string {
	return "(A) 8-bit streams of baseline.Encode and extended.Encode are decoded by Go's image/jpeg; its image must be within 2 grey levels (6 per RGB channel) of the library decoder's output, geometry equal. " +
		"(B) baseline-sequential streams from image/jpeg.Encode (grey; colour 4:2:0) and from the reference encoder in internal/ref (grey, YCbCr 4:4:4 / 4:2:2 / 4:2:0 / 4:4:0, Annex K or optimised Huffman tables, with/without DRI+RSTn, JFIF / Adobe / no APPn) are decoded by baseline.Decode and extended.Decode; each must return exactly w*h*components bytes within the same tolerance of image/jpeg.Decode of the same stream. " +
		"cases: every size 1..33 x 1..33 (sampled in the quick tier), random sizes to 256, quality 1..100, noise / smooth / checker / extremes. non-trivial: both decoders ran and every sample was compared; distinct = distinct descriptor"
}
func (c15) Assumptions() []string {
	return []string{"Go's image/jpeg is a conformant baseline decoder/encoder", "internal/ref/baselineenc.go emits conformant streams: image/jpeg must accept each one, otherwise the case is inconclusive, never a violation"}
}
func (c15) Decode(raw json.RawMessage) (any, error) { return decodeInto[c15Case](raw) }

func (c15) Build(tier string, seed uint64) []any {
	var cs []any
	th := tier == "thorough"
	classes := []string{"noise", "smooth", "checker", "twolevel", "ramp", "runs"}
	k := 0
	lim := 33
	for w := 1; w <= lim; w++ {
		for h := 1; h <= lim; h++ {
			if !th && (w*7+h*13+int(seed))%6 != 0 {
				continue
			}
			r := gen.Sub(seed, "C15", "grid", k)
			k++
			q := 1 + r.Intn(100)
			cl := gen.Pick(r, classes...)
			// A
			for _, codec := range []string{"baseline", "extended"} {
				cs = append(cs, &c15Case{Gen: "grid", Dir: "A", Codec: codec, W: w, H: h, C: gen.Pick(r, 1, 3), Quality: q, Class: cl, CSeed: r.U64()})
			}
			// B
			for _, dec := range []string{"baseline", "extended"} {
				nc := gen.Pick(r, 1, 3)
				cs = append(cs, &c15Case{Gen: "grid", Dir: "B", Codec: dec, Src: "stdlib", W: w, H: h, C: nc, Quality: q, Class: cl, CSeed: r.U64()})
				c := &c15Case{Gen: "grid", Dir: "B", Codec: dec, Src: "ref", W: w, H: h, C: nc, Quality: q, Class: cl, CSeed: r.U64()}
				c.HY, c.VY = gen.Pick(r, 1, 2), gen.Pick(r, 1, 2)
				c.Optimise = r.Bool()
				if r.Chance(1, 3) {
					c.DRI = 1 + r.Intn(5)
				}
				c.App = gen.Pick(r, "jfif", "adobe", "none")
				c.SplitDQT = r.Bool()
				cs = append(cs, c)
			}
		}
	}
	nRand := 400
	if th {
		nRand = 8000
	}
	for i := 0; i < nRand; i++ {
		r := gen.Sub(seed, "C15", "rand", i)
		w, h := 1+r.Intn(256), 1+r.Intn(256)
		if th && r.Chance(1, 60) {
			w, h = 65535, 1
		}
		c := &c15Case{Gen: "rand", W: w, H: h, C: gen.Pick(r, 1, 3), Quality: 1 + r.Intn(100), Class: gen.Pick(r, classes...), CSeed: r.U64()}
		switch i % 4 {
		case 0:
			c.Dir, c.Codec = "A", gen.Pick(r, "baseline", "extended")
		case 1:
			c.Dir, c.Codec, c.Src = "B", gen.Pick(r, "baseline", "extended"), "stdlib"
		default:
			c.Dir, c.Codec, c.Src = "B", gen.Pick(r, "baseline", "extended"), "ref"
			c.HY, c.VY = gen.Pick(r, 1, 2), gen.Pick(r, 1, 2)
			c.Optimise = r.Bool()
			if r.Chance(1, 3) {
				c.DRI = 1 + r.Intn(40)
			}
			c.App = gen.Pick(r, "jfif", "adobe", "none")
		}
		cs = append(cs, c)
	}
	// (blocks8) saturated flat 8x8 blocks next to black ones at quantiser step 1 (quality 96..100):
	// the largest legal DC differences, both directions, every producer
	nB8 := 48
	if th {
		nB8 = 600
	}
	for i := 0; i < nB8; i++ {
		r := gen.Sub(seed, "C15", "blocks8", i)
		c := &c15Case{Gen: "blocks8", W: 8 * (1 + r.Intn(10)), H: 8 * (1 + r.Intn(10)), C: gen.Pick(r, 1, 3), Quality: gen.Pick(r, 96, 98, 100, 100), Class: "blocks8", CSeed: r.U64()}
		switch i % 3 {
		case 0:
			c.Dir, c.Codec = "A", gen.Pick(r, "baseline", "extended")
		case 1:
			c.Dir, c.Codec, c.Src = "B", gen.Pick(r, "baseline", "extended"), "stdlib"
		default:
			c.Dir, c.Codec, c.Src = "B", gen.Pick(r, "baseline", "extended"), "ref"
			c.HY, c.VY = gen.Pick(r, 1, 2), gen.Pick(r, 1, 2)
			c.App = gen.Pick(r, "jfif", "adobe", "none")
		}
		cs = append(cs, c)
	}
	// pixel counts around 2^16 with moderate dimensions
	for j, g := range areaSizes(th, seed) {
		for i := 0; i < 3; i++ {
			r := gen.Sub(seed, "C15", "area", j*10+i)
			c := &c15Case{Gen: "area", W: g[0], H: g[1], C: gen.Pick(r, 1, 3), Quality: 50 + r.Intn(51), Class: gen.Pick(r, classes...), CSeed: r.U64()}
			switch i {
			case 0:
				c.Dir, c.Codec = "A", gen.Pick(r, "baseline", "extended")
			case 1:
				c.Dir, c.Codec, c.Src = "B", gen.Pick(r, "baseline", "extended"), "stdlib"
			default:
				c.Dir, c.Codec, c.Src = "B", gen.Pick(r, "baseline", "extended"), "ref"
				c.HY, c.VY = gen.Pick(r, 1, 2), gen.Pick(r, 1, 2)
				c.App = "jfif"
			}
			cs = append(cs, c)
		}
	}
	return cs
}

// stdDecode decodes with image/jpeg into packed grey / RGB.
func stdDecode(stream []byte) ([]byte, int, int, int, error) {
	img, err := jpeg.Decode(bytes.NewReader(stream))
	if err != nil {
		return nil, 0, 0, 0, err
	}
	b := img.Bounds()
	w, h := b.Dx(), b.Dy()
	switch t := img.(type) {
	case *image.Gray:
		out := make([]byte, w*h)
		for y := 0; y < h; y++ {
			for x := 0; x < w; x++ {
				out[y*w+x] = t.GrayAt(b.Min.X+x, b.Min.Y+y).Y
			}
		}
		return out, w, h, 1, nil
	default:
		out := make([]byte, w*h*3)
		for y := 0; y < h; y++ {
			for x := 0; x < w; x++ {
				c := color.RGBAModel.Convert(img.At(b.Min.X+x, b.Min.Y+y)).(color.RGBA)
				o := (y*w + x) * 3
				out[o], out[o+1], out[o+2] = c.R, c.G, c.B
			}
		}
		return out, w, h, 3, nil
	}
}

func (c15) Derive(d any) map[string]any {
	c := d.(*c15Case)
	return map[string]any{"subsampled": c.Dir == "B" && c.C == 3 && (c.Src == "stdlib" || c.HY > 1 || c.VY > 1), "restart": c.DRI > 0}
}

func (c15) Exec(d any) mon.Result {
	c := d.(*c15Case)
	res := mon.Hold()
	res.Cell("dir=" + c.Dir + "/" + c.Codec)
	res.Cell(fmt.Sprintf("c=%d", c.C))
	if c.Dir == "B" {
		res.Cell("src=" + c.Src)
		if c.Src == "ref" {
			res.Cell(fmt.Sprintf("sampling=%dx%d", c.HY, c.VY))
			res.Cell(fmt.Sprintf("optimised=%v/dri=%v/app=%s", c.Optimise, c.DRI > 0, c.App))
		}
	}
	if c.W <= 33 && c.H <= 33 {
		res.Cell(fmt.Sprintf("partial=%dx%d", c.W%16, c.H%16))
	}
	s := gen.Content(gen.New(c.CSeed), c.Class, c.W, c.H, c.C, 8, 1)
	px := gen.Pack(s, 8)
	var stream []byte
	var err error
	if c.Dir == "A" {
		if c.Codec == "baseline" {
			stream, err = baseline.Encode(px, c.W, c.H, c.C, c.Quality)
		} else {
			stream, err = extended.Encode(px, c.W, c.H, c.C, 8, c.Quality)
		}
		if err != nil {
			return mon.Violation("encode-error", err.Error())
		}
	} else if c.Src == "stdlib" {
		var img image.Image
		if c.C == 1 {
			g := image.NewGray(image.Rect(0, 0, c.W, c.H))
			copy(g.Pix, px)
			img = g
		} else {
			rg := image.NewRGBA(image.Rect(0, 0, c.W, c.H))
			for i := 0; i < c.W*c.H; i++ {
				rg.Pix[4*i], rg.Pix[4*i+1], rg.Pix[4*i+2], rg.Pix[4*i+3] = px[3*i], px[3*i+1], px[3*i+2], 255
			}
			img = rg
		}
		var buf bytes.Buffer
		if err := jpeg.Encode(&buf, img, &jpeg.Options{Quality: c.Quality}); err != nil {
			return mon.Result{V: mon.Inconclusive, Msg: "image/jpeg.Encode: " + err.Error()}
		}
		stream = buf.Bytes()
	} else {
		stream = ref.BaselineEncode(px, c.W, c.H, c.C, ref.BaselineOptions{Quality: c.Quality, HY: c.HY, VY: c.VY, Optimise: c.Optimise, DRI: c.DRI, App: c.App, SplitDQT: c.SplitDQT})
		if _, werr := ref.WalkJPEG(stream); werr != nil {
			return mon.Result{V: mon.Inconclusive, Msg: "reference encoder produced a stream the strict walker rejects: " + werr.Error()}
		}
	}
	std, sw, sh, sc, err := stdDecode(stream)
	if err != nil {
		if c.Dir == "A" {
			return mon.Violation("independent-decoder-rejects", "image/jpeg.Decode: "+err.Error())
		}
		return mon.Result{V: mon.Inconclusive, Msg: "image/jpeg rejects the independent encoder's stream: " + err.Error()}
	}
	if c.Dir == "B" && c.Src == "ref" {
		// the reference encoder's stream must itself be sane: image/jpeg's reconstruction stays
		// within a quality-dependent distance of the source only loosely, so only geometry is checked
		if sw != c.W || sh != c.H || sc != c.C {
			return mon.Result{V: mon.Inconclusive, Msg: "image/jpeg decodes the reference stream to another geometry"}
		}
	}
	var lib []byte
	var lw, lh, lc int
	decName := c.Codec
	if c.Dir == "A" {
		// the matching decoder
		if c.Codec == "baseline" {
			lib, lw, lh, lc, err = baseline.Decode(stream)
		} else {
			var lp int
			lib, lw, lh, lc, lp, err = extended.Decode(stream)
			_ = lp
		}
	} else if c.Codec == "baseline" {
		lib, lw, lh, lc, err = baseline.Decode(stream)
	} else {
		var lp int
		lib, lw, lh, lc, lp, err = extended.Decode(stream)
		if err == nil && lp != 8 {
			return mon.Violation("geometry", fmt.Sprintf("extended.Decode reports precision %d for an 8-bit stream", lp))
		}
	}
	if err != nil {
		res.V, res.Class, res.Msg = mon.Violated, "library-rejects-conformant-stream", decName+".Decode: "+err.Error()
		return res
	}
	if lw != c.W || lh != c.H || lc != c.C || sw != c.W || sh != c.H || sc != c.C {
		res.V, res.Class, res.Msg = mon.Violated, "geometry", fmt.Sprintf("%s.Decode reports %dx%dx%d, image/jpeg %dx%dx%d, expected %dx%dx%d", decName, lw, lh, lc, sw, sh, sc, c.W, c.H, c.C)
		return res
	}
	if len(lib) != c.W*c.H*c.C {
		res.V, res.Class, res.Msg = mon.Violated, "length", fmt.Sprintf("%s.Decode returned %d bytes, expected %d tightly packed samples", decName, len(lib), c.W*c.H*c.C)
		return res
	}
	tol := 2
	if c.C == 3 {
		tol = 6
	}
	worst := 0
	for i := range lib {
		e := int(lib[i]) - int(std[i])
		if e < 0 {
			e = -e
		}
		if e > worst {
			worst = e
		}
		if e > tol {
			res.V, res.Class = mon.Violated, "decoders-disagree"
			res.Msg = fmt.Sprintf("sample %d (x=%d y=%d comp=%d): %s.Decode %d, image/jpeg %d (|diff| %d > %d), source %d", i, (i/c.C)%c.W, i/c.C/c.W, i%c.C, decName, lib[i], std[i], e, tol, px[i])
			return res
		}
	}
	res.AddFeat(fmt.Sprintf("max_disagreement_%d", worst), 1)
	return res
}
