package props

import (
	"encoding/json"
	"fmt"

	"github.com/cocosip/go-dicom-codecs/jpeg/lossless"
	"github.com/cocosip/go-dicom-codecs/jpeg/lossless14sv1"

	dcodec "github.com/cocosip/go-dicom/pkg/imaging/codec"

	"verif/internal/gen"
	"verif/internal/mon"
)

// C02 — JPEG Lossless (predictors 1-7, auto, SV1): exact reconstruction.

type c02 struct{}

func init() { register(c02{}) }

func (c02) ID() string { return "C02" }
func (c02) Rule() string {
	return "(ffdense) 16-bit images whose scans are 50 KB .. 1 MB with a stuffed 0xFF every third byte at a drifting phase. " +
		"(codec) 2..4 frames in one Encode call of the registered .57 (predictor 1..7 as parameter) / .70 codecs, every decoded frame equal to its source. " +
		"library encoder -> library decoder, byte and geometry equality. cases: (enum) complete enumeration of all images of a small geometry at P=2/3 for each selector 0..7 and SV1 (batched, distinct by construction); " +
		"(pairs) all (a,b) two-sample images horizontally and vertically: every difference value through the category/magnitude coder; (cell) P in 2..16 x components {1,3} x selector x content classes x boundary sizes; (long) 65535x1, 1x65535. " +
		"non-trivial: the encoder accepted the image and the decoder output was compared; distinct = distinct descriptor"
}
func (c02) Assumptions() []string {
	return []string{"self round trip only (conformance to T.81 is C13)"}
}
func (c02) Decode(raw json.RawMessage) (any, error) { return decodeInto[imgCase](raw) }

const selSV1 = 8

func c02Encode(sel int, px []byte, w, h, c, p int) ([]byte, error) {
	if sel == selSV1 {
		return lossless14sv1.Encode(px, w, h, c, p)
	}
	return lossless.Encode(px, w, h, c, p, sel)
}

func c02Decode(sel int, data []byte) ([]byte, int, int, int, int, error) {
	if sel == selSV1 {
		return lossless14sv1.Decode(data)
	}
	return lossless.Decode(data)
}

func (c02) Build(tier string, seed uint64) []any {
	var cs []any
	th := tier == "thorough"
	add := func(b []*imgCase) {
		for _, x := range b {
			cs = append(cs, x)
		}
	}
	// (enum)
	type geo struct{ w, h, c, p int }
	geos := []geo{{1, 1, 1, 2}, {2, 1, 1, 2}, {1, 2, 1, 2}, {3, 1, 1, 2}, {1, 3, 1, 2}, {2, 2, 1, 2}, {3, 2, 1, 2}, {2, 3, 1, 2}, {1, 1, 3, 2}, {2, 1, 3, 2}, {1, 2, 3, 2},
		{1, 1, 1, 3}, {2, 1, 1, 3}, {1, 2, 1, 3}, {2, 2, 1, 3}}
	if th {
		geos = append(geos, geo{3, 3, 1, 2}, geo{3, 1, 3, 2}, geo{3, 2, 1, 3}, geo{2, 3, 1, 3}, geo{6, 1, 1, 3}, geo{1, 6, 1, 3}, geo{2, 2, 1, 4}, geo{4, 1, 1, 4}, geo{1, 1, 3, 4})
	}
	for _, g := range geos {
		for sel := 0; sel <= 8; sel++ {
			add(enumBatches("enum", g.w, g.h, g.c, g.p, sel, 8192))
		}
	}
	// (pairs): all differences
	for sel := 0; sel <= 8; sel++ {
		for p := 2; p <= 16; p++ {
			if !th && p != 2 && p != 8 && p != 12 && p != 15 && p != 16 && sel != 1 {
				continue
			}
			max := (1 << uint(p)) - 1
			as := []int{0, max, 1 << uint(p-1)}
			if p <= 8 && (th || p <= 6) {
				as = nil
				for a := 0; a <= max; a++ {
					as = append(as, a)
				}
			}
			for _, a := range as {
				for _, vert := range []int{0, 1} {
					if vert == 1 && (sel == 1 || sel == selSV1) && !th {
						continue
					}
					cs = append(cs, &imgCase{Gen: "pairs", W: 2 - vert, H: 1 + vert, C: 1, P: p, Sel: sel, Aux: a})
				}
			}
		}
	}
	// (cell)
	per := 6
	if th {
		per = 40
	}
	classes := []string{"noise", "altext", "bands", "twolevel", "ramp", "checker", "edges", "lowent", "impulses", "runs", "const", "smooth", "vstripes"}
	sizes := []int{1, 2, 3, 4, 5, 7, 8, 9, 15, 16, 17, 31, 32, 33, 63, 64, 65}
	big := []int{255, 256, 257, 511, 512}
	i := 0
	for p := 2; p <= 16; p++ {
		for _, c := range []int{1, 3} {
			for sel := 0; sel <= 8; sel++ {
				for k := 0; k < per; k++ {
					r := gen.Sub(seed, "C02", "cell", i)
					i++
					w, h := gen.Pick(r, sizes...), gen.Pick(r, sizes...)
					if r.Chance(1, 5) {
						w, h = 1+r.Intn(17), 1+r.Intn(17)
					}
					if th && r.Chance(1, 25) {
						w, h = gen.Pick(r, big...), gen.Pick(r, big...)
					}
					cl := classes[k%len(classes)]
					if k >= len(classes) {
						cl = classes[r.Intn(len(classes))]
					}
					if k == 0 {
						cl = "noise"
					} else if k == 1 {
						cl = "altext"
					} else if k == 2 {
						cl = "bands"
					}
					cs = append(cs, &imgCase{Gen: "cell", W: w, H: h, C: c, P: p, Sel: sel, Class: cl, Aux: 1 + r.Intn(3), CSeed: r.U64()})
				}
			}
		}
	}
	// (fibcat) deepest Huffman trees: Fibonacci-distributed categories on >= 6765 samples
	for _, p := range []int{8, 12, 16} {
		for sel := 0; sel <= 8; sel++ {
			if !th && sel != 1 && sel != selSV1 && sel != int(seed%8) {
				continue
			}
			r := gen.Sub(seed, "C02", "fibcat", p*16+sel)
			cs = append(cs, &imgCase{Gen: "fibcat", W: 100 + r.Intn(30), H: 70 + r.Intn(20), C: 1, P: p, Sel: sel, Class: "fibcat", CSeed: r.U64()})
		}
	}
	// (long)
	for j, p := range []int{2, 7, 8, 12, 15, 16} {
		if !th && j%2 == int(seed%2) {
			continue
		}
		for _, sel := range []int{1, 4, 7, selSV1, 0} {
			if !th && sel != 1 && sel != selSV1 && sel != 4 {
				continue
			}
			r := gen.Sub(seed, "C02", "long", j*10+sel)
			cs = append(cs, &imgCase{Gen: "long", W: 65535, H: 1, C: 1, P: p, Sel: sel, Class: gen.Pick(r, "noise", "runs", "altext"), CSeed: r.U64()})
			cs = append(cs, &imgCase{Gen: "long", W: 1, H: 65535, C: 1, P: p, Sel: sel, Class: gen.Pick(r, "noise", "runs", "altext"), CSeed: r.U64()})
		}
	}
	// (area)
	for j, g := range areaSizes(th, seed) {
		for k, sel := range []int{1, 4, 7, selSV1, 0} {
			if !th && (j+k+int(seed))%2 == 0 {
				continue
			}
			r := gen.Sub(seed, "C02", "area", j*10+k)
			cs = append(cs, &imgCase{Gen: "area", W: g[0], H: g[1], C: gen.Pick(r, 1, 3), P: gen.Pick(r, 8, 12, 16), Sel: sel, Class: gen.Pick(r, "noise", "smooth", "runs"), CSeed: r.U64()})
		}
	}
	// (ffdense) scans of 50 KB .. 1 MB in which every third byte is a stuffed 0xFF at a drifting
	// phase: a 0xFF on every kind of buffer boundary the byte writer may have
	nFF := 24
	if tier == "thorough" {
		nFF = 240
	}
	for k := 0; k < nFF; k++ {
		r := gen.Sub(seed, "C02", "ffdense", k)
		w, h := 120+r.Intn(140), 120+r.Intn(140)
		if k%6 == 5 {
			w, h = 400+r.Intn(200), 400+r.Intn(200)
		}
		cs = append(cs, &imgCase{Gen: "ffdense", W: w, H: h, C: gen.Pick(r, 1, 1, 3), P: 16, Sel: gen.Pick(r, 1, 1, 2, 8, 0, 7), Class: "ffdense", CSeed: r.U64()})
	}
	// (codec) 2..4 frames in one Encode call of the registered .57 (predictor as parameter) and .70
	// codecs: image-specific Huffman tables and predictor state must not carry over between frames
	nCodec := 60
	if tier == "thorough" {
		nCodec = 900
	}
	for k := 0; k < nCodec; k++ {
		r := gen.Sub(seed, "C02", "codec", k)
		cs = append(cs, &imgCase{Gen: "codec", W: 2 + r.Intn(60), H: 2 + r.Intn(40), C: gen.Pick(r, 1, 1, 3), P: gen.Pick(r, 8, 12, 16, 16, 2+r.Intn(15)), Sel: r.Intn(9),
			Class: gen.Pick(r, "noise", "smooth", "altext", "bands", "lowent", "twolevel", "runs", "fibcat"), Aux: 2 + r.Intn(3), CSeed: r.U64()})
	}
	return cs
}

// c02RT runs one round trip; class "" means held.
func c02RT(sel int, s []int, w, h, c, p int) (class, msg string, streamLen int) {
	px := gen.Pack(s, p)
	keep := append([]byte(nil), px...)
	enc, err := c02Encode(sel, px, w, h, c, p)
	if err != nil {
		return "encode-error", err.Error(), 0
	}
	if firstDiff(keep, px) >= 0 {
		return "source-modified", "Encode modified the caller's pixel buffer", len(enc)
	}
	out, dw, dh, dc, dp, err := c02Decode(sel, enc)
	if err != nil {
		return "decode-error", err.Error(), len(enc)
	}
	if dw != w || dh != h || dc != c || dp != p {
		return "geometry", fmt.Sprintf("decoder reports %dx%d c=%d P=%d, expected %dx%d c=%d P=%d", dw, dh, dc, dp, w, h, c, p), len(enc)
	}
	if i, g, wnt := firstSampleDiff(out, px, p); i >= 0 {
		return "pixel-mismatch", fmt.Sprintf("sample %d (x=%d y=%d comp=%d): decoded %d, source %d (len %d vs %d)", i, (i/c)%w, i/c/w, i%c, g, wnt, len(out), len(px)), len(enc)
	}
	return "", "", len(enc)
}

func (c02) Exec(d any) mon.Result {
	c := d.(*imgCase)
	res := mon.Hold()
	res.Cell(c.cell())
	res.Cell(fmt.Sprintf("sel=%d", c.Sel))
	res.Cell("gen=" + c.Gen)
	switch c.Gen {
	case "enum":
		var fc, fm string
		n := c.enumerate(func(s []int) bool {
			cl, msg, _ := c02RT(c.Sel, s, c.W, c.H, c.C, c.P)
			if cl != "" {
				fc, fm = cl, fmt.Sprintf("samples=%v: %s", s, msg)
				return false
			}
			return true
		})
		res.Sub = n
		if fc != "" {
			res.V, res.Class, res.Msg = mon.Violated, fc, fm
		}
		return res
	case "pairs":
		max := (1 << uint(c.P)) - 1
		s := make([]int, 2)
		s[0] = c.Aux
		for b := 0; b <= max; b++ {
			s[1] = b
			cl, msg, _ := c02RT(c.Sel, s, c.W, c.H, 1, c.P)
			if cl != "" {
				res.V, res.Class, res.Msg = mon.Violated, cl, fmt.Sprintf("samples=%v: %s", s, msg)
				break
			}
		}
		res.Sub = max + 1
		return res
	}
	if c.Gen == "codec" {
		r := c02Codec(c)
		r.Cells = res.Cells
		return r
	}
	s := c.samples()
	cl, msg, n := c02RT(c.Sel, s, c.W, c.H, c.C, c.P)
	res.AddFeat("stream_bytes", int64(n))
	if cl != "" {
		res.V, res.Class, res.Msg = mon.Violated, cl, msg
	}
	return res
}

// c02Codec judges a multi-frame round trip through the registered .57 / .70 codec.
func c02Codec(c *imgCase) mon.Result {
	res := mon.Hold()
	ba := 8
	if c.P > 8 {
		ba = 16
	}
	ts := ".57"
	if c.Sel == 8 {
		ts = ".70"
	}
	cd := Codec(ts)
	info := FrameInfo(c.W, c.H, ba, c.P, c.C, 0, 0)
	var frames [][]byte
	classes := []string{c.Class, "noise", "const", "altext"}
	for f := 0; f < c.Aux; f++ {
		frames = append(frames, gen.Pack(gen.Content(gen.New(gen.Mix(c.CSeed, uint64(f))), classes[f%len(classes)], c.W, c.H, c.C, c.P, 0), c.P))
	}
	var p dcodec.Parameters
	if ts == ".57" && c.Sel >= 1 {
		p = cd.GetDefaultParameters()
		p.SetParameter("predictor", c.Sel)
	}
	enc := NewPD(info)
	if err := cd.Encode(NewPD(info, frames...), enc, p); err != nil {
		return mon.Violation("encode-error", err.Error())
	}
	dec := NewPD(info)
	if err := cd.Decode(NewPD(info, enc.Frames...), dec, nil); err != nil {
		return mon.Violation("decode-error", err.Error())
	}
	if len(enc.Frames) != len(frames) || len(dec.Frames) != len(frames) {
		return mon.Violation("frame-count", fmt.Sprintf("%d encoded / %d decoded frames for %d inputs", len(enc.Frames), len(dec.Frames), len(frames)))
	}
	for f := range frames {
		if i := firstDiff(dec.Frames[f], frames[f]); i >= 0 {
			return mon.Violation("pixel-mismatch", fmt.Sprintf("frame %d of %d (codec-level %s call) differs from its source at byte %d (len %d vs %d)", f, len(frames), ts, i, len(dec.Frames[f]), len(frames[f])))
		}
		res.AddFeat("codec_frames", 1)
	}
	return res
}
