package props

import (
	"encoding/json"
	"fmt"

	"github.com/cocosip/go-dicom/pkg/imaging/imagetypes"

	"verif/internal/gen"
	"verif/internal/mon"
	"verif/internal/ref"
)

// C01 — RLE round trip and Annex G validity.

type c01Case struct {
	Gen    string `json:"gen"`
	Rows   int    `json:"rows"`
	Cols   int    `json:"cols"`
	BA     int    `json:"ba"`
	SPP    int    `json:"spp"`
	Planar int    `json:"planar"`
	// enum batches: all frames of NBytes bytes over {00,01,FF} whose first
	// three symbols are the base-3 digits of Prefix (Prefix<0: whole space)
	NBytes int `json:"nbytes,omitempty"`
	Prefix int `json:"prefix,omitempty"`
	// run-structured frames: (kind 0 literal / 1 run / 2 literal containing a 2-run, length, value)
	Items [][3]int `json:"items,omitempty"`
	Class string   `json:"class,omitempty"`
	CSeed uint64   `json:"cseed,omitempty"`
	// After > 0 (gen afterr): that many rejected Encode calls (truncated frame) and one rejected
	// Decode call (truncated stream) are made on the codec just before the round trip
	After int `json:"after,omitempty"`
	// BS > 0: BitsStored below BitsAllocated (and PR: PixelRepresentation); the frame bytes stay
	// arbitrary ("every pixel byte string": overlay bits, sign extension, dirty padding above BitsStored)
	BS int `json:"bs,omitempty"`
	PR int `json:"pr,omitempty"`
}

func (c *c01Case) info() *imagetypes.FrameInfo {
	bs := c.BA
	if c.BS > 0 {
		bs = c.BS
	}
	return FrameInfo(c.Cols, c.Rows, c.BA, bs, c.SPP, c.PR, c.Planar)
}

type c01 struct{}

func init() { register(c01{}) }

func (c01) ID() string { return "C01" }
func (c01) Rule() string {
	return "cases: (enum) complete enumeration of all native frames of n bytes over the alphabet {00,01,FF} for each of the 12 plane layouts (batched; sub-cases distinct by construction); " +
		"(struct) frames built from run/literal items with lengths around 2/3 and 127/128/129/256; (rand) seeded geometries x content classes; (long) 65535x1 and 1x65535 per layout; (area) pixel counts around 2^16 and 2^17 with both dimensions moderate. " +
		"a third of the (rand) frames declare BitsStored below BitsAllocated (half of those a whole byte plane lower) and either PixelRepresentation, with arbitrary bytes above BitsStored. " +
		"A case is non-trivial when Encode accepted the frame and all three oracles (library round trip, Annex G structure, independent PackBits reader) were evaluated; distinct = distinct descriptor."
}
func (c01) Assumptions() []string {
	return []string{"internal/ref/rle.go (independent Annex G/PackBits reader written from PS3.5 Annex G) is correct; it is cross-checked in the prelude against hand-built streams"}
}
func (c01) Decode(raw json.RawMessage) (any, error) { return decodeInto[c01Case](raw) }

var c01Layouts = func() [][3]int {
	var l [][3]int
	for _, ba := range []int{8, 16, 32} {
		for _, spp := range []int{1, 3} {
			for _, pl := range []int{0, 1} {
				l = append(l, [3]int{ba, spp, pl})
			}
		}
	}
	return l
}()

func (c01) Prelude() error {
	// hand-built Annex G stream: 1 segment, literal "A B C", replicate 4x'Z', noop, literal 'Q'
	seg := []byte{2, 'A', 'B', 'C', 0xFD, 'Z', 0x80, 0, 'Q', 0}
	fr := make([]byte, 64)
	fr[0] = 1
	fr[4] = 64
	fr = append(fr, seg...)
	pl, st, err := ref.RLEDecodeFrame(fr, 1, 8)
	if err != nil || string(pl[0]) != "ABCZZZZQ" || st.Noop != 1 || st.TrailingBytes != 1 {
		return fmt.Errorf("ref.RLEDecodeFrame self-test failed: %v %q %+v", err, pl, st)
	}
	got := ref.RLEAssemble([][]byte{{1, 2}, {3, 4}}, 2, 2, 1, 0)
	if fmt.Sprint(got) != "[3 1 4 2]" {
		return fmt.Errorf("ref.RLEAssemble self-test failed: %v", got)
	}
	// 16-bit RGB planar vs interleaved
	planes := [][]byte{{0xA1}, {0xA0}, {0xB1}, {0xB0}, {0xC1}, {0xC0}}
	if g := ref.RLEAssemble(planes, 1, 2, 3, 0); fmt.Sprintf("%x", g) != "a0a1b0b1c0c1" {
		return fmt.Errorf("ref.RLEAssemble rgb16: %x", g)
	}
	if _, _, err := ref.RLEDecodeFrame(append(fr[:64:64], 5, 1, 2), 1, 8); err == nil {
		return fmt.Errorf("ref.RLEDecodeFrame accepted a truncated literal")
	}
	return nil
}

func pow3(n int) int {
	r := 1
	for i := 0; i < n; i++ {
		r *= 3
	}
	return r
}

func (c01) Build(tier string, seed uint64) []any {
	var cs []any
	maxBytes, maxRow := 9, 8
	nStruct, nRand, randMax := 4000, 2000, 256
	if tier == "thorough" {
		maxBytes, maxRow = 12, 10
		nStruct, nRand, randMax = 60000, 30000, 1024
	}
	// (enum-a) 8-bit single-sample rows of length 1..maxRow
	for n := 1; n <= maxRow; n++ {
		if n <= 5 {
			cs = append(cs, &c01Case{Gen: "enum", Rows: 1, Cols: n, BA: 8, SPP: 1, NBytes: n, Prefix: -1})
			continue
		}
		for p := 0; p < 27; p++ {
			cs = append(cs, &c01Case{Gen: "enum", Rows: 1, Cols: n, BA: 8, SPP: 1, NBytes: n, Prefix: p})
		}
	}
	// (enum-b) every layout: all frames of up to maxBytes bytes
	for _, l := range c01Layouts {
		bpp := l[0] / 8 * l[1]
		for px := 1; px*bpp <= maxBytes; px++ {
			if l[0] == 8 && l[1] == 1 && l[2] == 0 {
				continue // covered by enum-a
			}
			rows, cols := 1, px
			if px%2 == 0 && px > 2 {
				rows, cols = 2, px/2
			}
			n := px * bpp
			if n <= 6 {
				cs = append(cs, &c01Case{Gen: "enum", Rows: rows, Cols: cols, BA: l[0], SPP: l[1], Planar: l[2], NBytes: n, Prefix: -1})
			} else {
				for p := 0; p < 27; p++ {
					cs = append(cs, &c01Case{Gen: "enum", Rows: rows, Cols: cols, BA: l[0], SPP: l[1], Planar: l[2], NBytes: n, Prefix: p})
				}
			}
		}
	}
	// (struct)
	runLens := []int{1, 2, 3, 4, 126, 127, 128, 129, 130, 255, 256, 257, 258, 384}
	litLens := []int{1, 2, 3, 127, 128, 129, 130, 256, 257}
	for i := 0; i < nStruct; i++ {
		r := gen.Sub(seed, "C01", "struct", i)
		k := 1 + r.Intn(6)
		var items [][3]int
		for j := 0; j < k; j++ {
			switch r.Intn(5) {
			case 0, 1:
				items = append(items, [3]int{1, gen.Pick(r, runLens...), r.Intn(256)})
			case 2, 3:
				items = append(items, [3]int{0, gen.Pick(r, litLens...), r.Intn(256)})
			default:
				items = append(items, [3]int{2, gen.Pick(r, litLens...) + 3, r.Intn(256)})
			}
		}
		l := c01Layouts[r.Intn(len(c01Layouts))]
		if r.Chance(1, 2) {
			l = [3]int{8, 1, 0}
		}
		total := 0
		for _, it := range items {
			total += it[1]
		}
		rows, cols := 1, total
		if total%2 == 0 && r.Bool() {
			rows, cols = 2, total/2
		} else if total%3 == 0 && r.Bool() {
			rows, cols = total/3, 3
		}
		cs = append(cs, &c01Case{Gen: "struct", Rows: rows, Cols: cols, BA: l[0], SPP: l[1], Planar: l[2], Items: items, CSeed: r.U64()})
	}
	// (rand)
	for i := 0; i < nRand; i++ {
		r := gen.Sub(seed, "C01", "rand", i)
		l := c01Layouts[r.Intn(len(c01Layouts))]
		w, h := gen.SmallSize(r, randMax), gen.SmallSize(r, randMax)
		if i%2 == 0 && l[0] == 8 {
			// force odd byte counts
			w |= 1
			h |= 1
			if w > randMax {
				w = randMax - 1
			}
			if h > randMax {
				h = randMax - 1
			}
		}
		rc := &c01Case{Gen: "rand", Rows: h, Cols: w, BA: l[0], SPP: l[1], Planar: l[2], Class: gen.Classes[r.Intn(len(gen.Classes))], CSeed: r.U64()}
		if i%3 == 1 {
			// BitsStored at least one whole byte plane below BitsAllocated in half of these
			rc.BS, rc.PR = 1+r.Intn(l[0]), r.Intn(2)
			if r.Bool() && l[0] > 8 {
				rc.BS = 1 + r.Intn(l[0]-8)
			}
			rc.Class = gen.Pick(r, "noise", "altext", "twolevel", "runs")
		}
		cs = append(cs, rc)
	}
	// (afterr) the round trip right after calls the codec rejected (state left behind by an
	// error path - pooled encoders, partially written headers - must not leak into the next frame)
	for i := 0; i < nRand/4; i++ {
		r := gen.Sub(seed, "C01", "afterr", i)
		l := c01Layouts[r.Intn(len(c01Layouts))]
		cs = append(cs, &c01Case{Gen: "afterr", Rows: 1 + r.Intn(40), Cols: 1 + r.Intn(40), BA: l[0], SPP: l[1], Planar: l[2], Class: gen.Pick(r, "runs", "noise", "lowent", "const", "smooth"), CSeed: r.U64(), After: 1 + r.Intn(4)})
	}
	// (long)
	for i, l := range c01Layouts {
		for _, g := range [][2]int{{65535, 1}, {1, 65535}} {
			if tier != "thorough" && i%3 != int(seed%3) && l[0] != 8 {
				continue
			}
			cs = append(cs, &c01Case{Gen: "long", Rows: g[0], Cols: g[1], BA: l[0], SPP: l[1], Planar: l[2], Class: gen.Pick(gen.Sub(seed, "C01", "long", i), "runs", "noise", "lowent", "const"), CSeed: uint64(i) + seed})
		}
	}
	// (area) pixel counts on both sides of 2^16 (and 2^17) with neither dimension large
	k := 0
	for _, l := range c01Layouts {
		for _, g := range [][2]int{{256, 256}, {255, 257}, {257, 256}, {300, 300}, {128, 513}, {512, 128}, {362, 363}} {
			k++
			if tier != "thorough" && (k+int(seed))%4 != 0 && !(l[1] == 3 && l[2] == 1 && g[0] == 256 && g[1] == 256) {
				continue
			}
			cs = append(cs, &c01Case{Gen: "area", Rows: g[0], Cols: g[1], BA: l[0], SPP: l[1], Planar: l[2], Class: gen.Pick(gen.Sub(seed, "C01", "area", k), "runs", "noise", "lowent", "smooth"), CSeed: uint64(k) + seed})
		}
	}
	return cs
}

// frame builds the native frame of a non-enum case.
func (c *c01Case) frame() []byte {
	bytesPer := c.BA / 8
	px := c.Rows * c.Cols
	r := gen.New(c.CSeed)
	switch c.Gen {
	case "struct":
		// build one byte plane from the items, then derive the other planes by
		// rotating the item list so that every plane has its own boundaries
		nPl := bytesPer * c.SPP
		planes := make([][]byte, nPl)
		for p := 0; p < nPl; p++ {
			var pl []byte
			for j := range c.Items {
				it := c.Items[(j+p)%len(c.Items)]
				v := byte(it[2] + p)
				switch it[0] {
				case 1:
					for k := 0; k < it[1]; k++ {
						pl = append(pl, v)
					}
				case 0:
					for k := 0; k < it[1]; k++ {
						pl = append(pl, v+byte(1+k%2)+byte(k%3)) // no two equal neighbours
					}
				default:
					for k := 0; k < it[1]; k++ {
						b := v + byte(1+k%2) + byte(k%3)
						if k == it[1]/2 && k > 0 {
							b = pl[len(pl)-1] // a 2-run inside the literal
						}
						pl = append(pl, b)
					}
				}
			}
			planes[p] = pl[:px]
		}
		out := ref.RLEAssemble(planes, px, bytesPer, c.SPP, c.Planar)
		return out[:px*nPl]
	default:
		s := gen.Content(r, c.Class, c.Cols, c.Rows, c.SPP, c.BA, 3)
		b := gen.PackN(s, bytesPer)
		if c.Planar == 1 && c.SPP > 1 {
			o := make([]byte, len(b))
			for p := 0; p < px; p++ {
				for k := 0; k < c.SPP; k++ {
					copy(o[(k*px+p)*bytesPer:], b[(p*c.SPP+k)*bytesPer:(p*c.SPP+k+1)*bytesPer])
				}
			}
			return o
		}
		return b
	}
}

func (c01) Exec(d any) mon.Result {
	c := d.(*c01Case)
	if c.Gen != "enum" {
		fr := c.frame()
		if c.After > 0 {
			c01Rejected(c, fr)
		}
		res := c01One(c, fr)
		res.Cell(fmt.Sprintf("layout=%d/%d/%d", c.BA, c.SPP, c.Planar))
		res.Cell("gen=" + c.Gen)
		return res
	}
	alpha := [3]byte{0x00, 0x01, 0xFF}
	n := c.NBytes
	free := n
	base := 0
	if c.Prefix >= 0 {
		free = n - 3
		base = c.Prefix
	}
	total := pow3(free)
	fr := make([]byte, n)
	agg := mon.Result{V: mon.Held, NonTrivial: true, Sub: total}
	agg.Cell(fmt.Sprintf("layout=%d/%d/%d", c.BA, c.SPP, c.Planar))
	agg.Cell("gen=enum")
	for i := 0; i < total; i++ {
		v := i
		k := 0
		if c.Prefix >= 0 {
			p := base
			for ; k < 3; k++ {
				fr[k] = alpha[p%3]
				p /= 3
			}
		}
		for ; k < n; k++ {
			fr[k] = alpha[v%3]
			v /= 3
		}
		r := c01One(c, fr)
		for kf, vf := range r.Feat {
			agg.AddFeat(kf, vf)
		}
		if r.V == mon.Violated {
			r.Sub = total
			r.Msg = fmt.Sprintf("frame=%x: %s", fr, r.Msg)
			r.Cells = agg.Cells
			r.Feat = agg.Feat
			return r
		}
	}
	return agg
}

// c01One runs the three oracles on one native frame.
func c01One(c *c01Case, frame []byte) mon.Result {
	info := c.info()
	cd := Codec("rle")
	keep := append([]byte(nil), frame...)
	src := NewPD(info, frame)
	enc := NewPD(info)
	if err := cd.Encode(src, enc, nil); err != nil {
		return mon.Violation("encode-error", err.Error())
	}
	if firstDiff(keep, frame) >= 0 {
		return mon.Violation("source-modified", "Encode wrote into the caller's frame")
	}
	if len(enc.Frames) != 1 {
		return mon.Violation("frame-count", fmt.Sprintf("%d encoded frames for 1 input frame", len(enc.Frames)))
	}
	stream := enc.Frames[0]
	res := mon.Hold()
	// oracle 1: library round trip
	dec := NewPD(info)
	if err := cd.Decode(NewPD(info, stream), dec, nil); err != nil {
		return mon.Violation("decode-error", err.Error())
	}
	if len(dec.Frames) != 1 {
		return mon.Violation("frame-count", fmt.Sprintf("%d decoded frames", len(dec.Frames)))
	}
	want := frame
	if len(frame)%2 == 1 {
		want = append(append([]byte(nil), frame...), 0)
		res.AddFeat("odd_length_frames", 1)
	}
	if i := firstDiff(dec.Frames[0], want); i >= 0 {
		return mon.Violation("roundtrip-mismatch", fmt.Sprintf("decoded differs from source at byte %d (len %d vs %d)", i, len(dec.Frames[0]), len(want)))
	}
	// oracle 2+3: Annex G structure and the independent reader
	bytesPer := c.BA / 8
	px := c.Rows * c.Cols
	planes, st, err := ref.RLEDecodeFrame(stream, bytesPer*c.SPP, px)
	if err != nil {
		return mon.Violation("annexg-invalid", err.Error())
	}
	got := ref.RLEAssemble(planes, px, bytesPer, c.SPP, c.Planar)
	if i := firstDiff(got, want); i >= 0 {
		return mon.Violation("reference-reader-mismatch", fmt.Sprintf("independent PackBits reader differs from source at byte %d", i))
	}
	for k := 1; k <= 128; k++ {
		if st.Literal[k] > 0 {
			res.AddFeat(fmt.Sprintf("literal_len_%03d", k), int64(st.Literal[k]))
		}
		if st.Replicate[k] > 0 {
			res.AddFeat(fmt.Sprintf("replicate_len_%03d", k), int64(st.Replicate[k]))
		}
	}
	res.AddFeat("segments", int64(st.NSeg))
	res.AddFeat("segment_trailing_bytes", int64(st.TrailingBytes))
	res.AddFeat("segment_trailing_nonzero(recorded,not judged)", int64(st.TrailingNZ))
	res.AddFeat("odd_segment_offsets(recorded,not judged)", int64(st.OddOffsets))
	res.AddFeat("nonzero_unused_offset_slots(recorded,not judged)", int64(st.UnusedNonZero))
	return res
}

func (c01) Finish(obs map[string]int64, ev map[string]any) {
	lit, rep := 0, 0
	for k := 1; k <= 128; k++ {
		if obs[fmt.Sprintf("literal_len_%03d", k)] > 0 {
			lit++
		}
		if obs[fmt.Sprintf("replicate_len_%03d", k)] > 0 {
			rep++
		}
	}
	ev["distinct_literal_lengths_seen_by_reference_reader(of 128)"] = lit
	ev["distinct_replicate_lengths_seen_by_reference_reader(of 127)"] = rep
}

// c01Rejected makes calls the codec must reject (their outcome is C17's and C08's business,
// not judged here): Encode of the frame cut short, Decode of a stream cut short.
func c01Rejected(c *c01Case, frame []byte) {
	defer func() { _ = recover() }()
	info := c.info()
	cd := Codec("rle")
	r := gen.New(c.CSeed ^ 0x5eed)
	for k := 0; k < c.After; k++ {
		cut := len(frame) - 1 - r.Intn(len(frame))
		if cut < 0 {
			cut = 0
		}
		_ = cd.Encode(NewPD(info, append([]byte(nil), frame[:cut]...)), NewPD(info), nil)
	}
	enc := NewPD(info)
	if err := cd.Encode(NewPD(info, append([]byte(nil), frame...)), enc, nil); err == nil && len(enc.Frames) == 1 && len(enc.Frames[0]) > 66 {
		st := enc.Frames[0]
		_ = cd.Decode(NewPD(info, append([]byte(nil), st[:64+r.Intn(len(st)-64)]...)), NewPD(info), nil)
	}
}
