package props

import (
	"fmt"

	"verif/internal/gen"
)

// imgCase is the descriptor shared by the sample-domain round-trip properties
// (C02, C03, C07, C13, C14, ...).
type imgCase struct {
	Gen   string `json:"gen"`
	W     int    `json:"w"`
	H     int    `json:"h"`
	C     int    `json:"c"`
	P     int    `json:"p"`
	Sel   int    `json:"sel"`             // predictor 0..7, 8 = SV1 (C02/C13); NEAR (C07/C14)
	Class string `json:"class,omitempty"` // content class
	Aux   int    `json:"aux,omitempty"`
	CSeed uint64 `json:"cseed,omitempty"`
	// enum batches: all images of W*H*C samples over [0,2^P) whose leading
	// PLen samples are the base-2^P digits of Prefix
	Prefix int `json:"prefix,omitempty"`
	PLen   int `json:"plen,omitempty"`
	// explicit samples (pairs etc.)
	Samples []int `json:"samples,omitempty"`
}

// samples materialises a non-enum case.
func (c *imgCase) samples() []int {
	if c.Samples != nil {
		return c.Samples
	}
	return gen.Content(gen.New(c.CSeed), c.Class, c.W, c.H, c.C, c.P, c.Aux)
}

// enumerate calls f with every image of the batch; f returns false to stop.
// It returns the number of images visited.
func (c *imgCase) enumerate(f func(s []int) bool) int {
	n := c.W * c.H * c.C
	base := 1 << uint(c.P)
	free := n - c.PLen
	total := pow(base, free)
	s := make([]int, n)
	p := c.Prefix
	for k := 0; k < c.PLen; k++ {
		s[k] = p % base
		p /= base
	}
	for i := 0; i < total; i++ {
		v := i
		for k := c.PLen; k < n; k++ {
			s[k] = v % base
			v /= base
		}
		if !f(s) {
			return i + 1
		}
	}
	return total
}

// enumBatches splits the complete space of (w,h,c,p) images into batches of at
// most maxPer images.
func enumBatches(genName string, w, h, c, p, sel, maxPer int) []*imgCase {
	n := w * h * c
	base := 1 << uint(p)
	plen := 0
	for pow(base, n-plen) > maxPer && plen < n {
		plen++
	}
	var out []*imgCase
	for pre := 0; pre < pow(base, plen); pre++ {
		out = append(out, &imgCase{Gen: genName, W: w, H: h, C: c, P: p, Sel: sel, Prefix: pre, PLen: plen})
	}
	return out
}

func (c *imgCase) cell() string { return fmt.Sprintf("P=%02d/c=%d", c.P, c.C) }

// firstSampleDiff compares two packed buffers sample-wise.
func firstSampleDiff(got, want []byte, p int) (idx int, g, w int) {
	bps := 1
	if p > 8 {
		bps = 2
	}
	n := len(want) / bps
	if len(got)/bps < n {
		n = len(got) / bps
	}
	for i := 0; i < n; i++ {
		var a, b int
		if bps == 1 {
			a, b = int(got[i]), int(want[i])
		} else {
			a, b = int(got[2*i])|int(got[2*i+1])<<8, int(want[2*i])|int(want[2*i+1])<<8
		}
		if a != b {
			return i, a, b
		}
	}
	if len(got) != len(want) {
		return n, -1, -1
	}
	return -1, 0, 0
}

// areaSizes returns geometries whose pixel count is on both sides of 2^16 while neither
// dimension is large (16-bit products of the two are the realistic slip): all of them in
// the thorough tier, 256x256 plus one rotating with the seed in the quick tier.
func areaSizes(th bool, seed uint64) [][2]int {
	all := [][2]int{{256, 256}, {255, 257}, {257, 256}, {300, 301}, {513, 128}, {128, 513}, {362, 363}}
	if th {
		return all
	}
	return [][2]int{all[0], all[1+int(seed%uint64(len(all)-1))]}
}

// runLimitEnumerate visits the images of a "runlimit" batch: H rows of W = Aux+2 samples;
// the first H-1 rows are flat (runs that reach the line end and raise RUNindex), the last
// row is a flat run of Aux samples, one outlier, and one more background sample.  The outlier
// magnitude sweeps the whole sample range in steps of max(1, 2^(P-9)) (at least four points
// inside every window of Golomb prefix lengths at the initial run-interruption context), for
// both polarities (background 0 / outlier v, background MAXVAL / outlier MAXVAL-v), so the
// run-interruption code is driven through every prefix length up to and beyond the escape
// limit LIMIT - J[RUNindex] - 1 at the RUNindex the run history leaves behind.  All
// components carry the same values.  f returns false to stop.  Returns the images visited.
func (c *imgCase) runLimitEnumerate(f func(s []int) bool) int {
	max := (1 << uint(c.P)) - 1
	step := 1
	if c.P > 9 {
		step = 1 << uint(c.P-9)
	}
	n := 0
	s := make([]int, c.W*c.H*c.C)
	for _, bg := range []int{0, max} {
		for v := 1; v <= max; v += step {
			for i := range s {
				s[i] = bg
			}
			out := v
			if bg != 0 {
				out = max - v
			}
			pos := (c.H-1)*c.W + c.Aux
			for k := 0; k < c.C; k++ {
				s[pos*c.C+k] = out
			}
			n++
			if !f(s) {
				return n
			}
		}
	}
	return n
}

// runLimitBatches: run lengths 1..maxL before the outlier, 1..3 rows.
func runLimitBatches(ps []int, comps []int, nears []int, maxL int, rows []int) []*imgCase {
	var out []*imgCase
	for _, p := range ps {
		for _, nc := range comps {
			for _, near := range nears {
				if near > maxNear(p) {
					continue
				}
				for _, h := range rows {
					for l := 1; l <= maxL; l++ {
						out = append(out, &imgCase{Gen: "runlimit", W: l + 2, H: h, C: nc, P: p, Sel: near, Aux: l})
					}
				}
			}
		}
	}
	return out
}

// tallRunBatches: H-1 flat rows (each coded as one run that reaches the line end: a stream of
// 1 bits) followed by a row that starts with the outlier (run of length 0, interruption at once)
// - long all-ones stretches in front of the longest Golomb prefixes, for every bit phase.
func tallRunBatches(ps []int, widths []int, nears []int, maxH int) []*imgCase {
	var out []*imgCase
	for _, p := range ps {
		for _, w := range widths {
			for _, near := range nears {
				for h := 2; h <= maxH; h++ {
					out = append(out, &imgCase{Gen: "runlimit", W: w, H: h, C: 1, P: p, Sel: near, Aux: 0})
				}
			}
		}
	}
	return out
}
