package props

import (
	"bufio"
	"bytes"
	"encoding/json"
	"fmt"
	"os"
	"os/exec"
	"path/filepath"
	"reflect"
	"runtime"
	"sort"
	"strconv"
	"strings"
	"sync"
	"sync/atomic"

	dcodec "github.com/cocosip/go-dicom/pkg/imaging/codec"

	jll "github.com/cocosip/go-dicom-codecs/jpeg/lossless"
	"github.com/cocosip/go-dicom-codecs/jpeg2000"
	"github.com/cocosip/go-dicom-codecs/jpeg2000/colorspace"
	"github.com/cocosip/go-dicom-codecs/jpeg2000/mqc"
	"github.com/cocosip/go-dicom-codecs/jpeg2000/wavelet"

	"verif/internal/gen"
	"verif/internal/globals"
	"verif/internal/mon"
)

// C18 — registered codecs are safe for concurrent use.
//
// Every case is one *cold child process* (race-detector build): the storm of
// concurrent calls comes first, so that first-use initialisation happens under
// concurrency; the solo reference results are computed afterwards, sequentially.

type c18Case struct {
	Procs  int    `json:"procs"`  // GOMAXPROCS
	Params string `json:"params"` // nil | percall | shared
	G      int    `json:"goroutines"`
	Ops    int    `json:"ops"` // operations per goroutine
	Seed   uint64 `json:"seed"`
}

type c18 struct{}

func init() { register(c18{}) }

func (c18) ID() string { return "C18" }
func (c18) Rule() string {
	return "each case is a cold child process built with the race detector (GORACE halt_on_error=0, reports counted from the log and de-duplicated by the pair of first library frames): G goroutines start together and run seeded lists of Encode/Decode operations on the SAME registry instances of the 14 codecs, each with its own PixelData and with nil / per-call / one shared GetDefaultParameters() object per codec, plus goroutines on their own low-level objects (jpeg2000.Encoder/Decoder, lossless.Encode/Decode, MQ coder, 5/3 DWT, RCT). Oracles: (1) every result (bytes and error text) equals the result of the same call run alone afterwards; (2) zero race reports; (3) digests of ALL package-level variables of every library package (digest code generated with go/parser into a scratch copy at check time) and reflection digests of the registry codec instances are equal before the storm and after it; (4) measured overlap (operations that ran while another operation was inside the same codec instance) must be > 0 or the case is inconclusive. " +
		"the RLE codec additionally decodes three foreign (harness-built) colour-by-plane frames of 2^16 pixels and more, two of them with segments longer than their plane (streams the library's encoder never writes). " +
		"cases: GOMAXPROCS in {1,2,4,16} x parameter mode x seeds. non-trivial: overlap observed and all results compared; distinct = distinct descriptor"
}
func (c18) Assumptions() []string {
	return []string{"absence of race reports is evidence for the executed pairs of accesses only", "the static obligation named in the quantifier (no function other than init writes a package-level variable) is replaced by the runtime digest comparison, which sees executed paths only"}
}
func (c18) Decode(raw json.RawMessage) (any, error) { return decodeInto[c18Case](raw) }
func (c18) MaxWorkers() int                         { return 2 }

func (c18) Build(tier string, seed uint64) []any {
	var cs []any
	reps, g, ops := 1, 64, 12
	if tier == "thorough" {
		reps, ops = 8, 24
	}
	k := 0
	for rep := 0; rep < reps; rep++ {
		for _, procs := range []int{1, 2, 4, 16} {
			for _, pm := range []string{"nil", "percall", "shared"} {
				k++
				cs = append(cs, &c18Case{Procs: procs, Params: pm, G: g, Ops: ops, Seed: gen.Mix(seed, 18, uint64(k))})
			}
		}
	}
	return cs
}

// ---- the storm (runs inside the child)

type c18Op struct {
	TS     string
	Decode bool
	Img    int
}

type c18Image struct {
	W, H, BA, BS, SPP int
	Frame             []byte
	// Foreign != nil: a stream the library did not write (harness-built); the operation on this
	// image is a Decode of it with the frame description below
	Planar  int
	Foreign []byte
}

// c18ForeignRLE builds a valid-but-unusual Annex G frame for a colour-by-plane image of at least
// 2^16 pixels: literal PackBits packets only, and the segments listed in long carry `extra` more
// bytes than their plane holds (padding a foreign encoder may leave; decoders tolerate it).
func c18ForeignRLE(r *gen.Rand, w, h, spp int, long map[int]bool, extra int) c18Image {
	n := w * h
	frame := gen.PackN(gen.Content(r, "noise", w, h, spp, 8, 1), 1)
	var segs [][]byte
	for k := 0; k < spp; k++ {
		plane := make([]byte, 0, n+extra)
		for i := 0; i < n; i++ {
			plane = append(plane, frame[i*spp+k])
		}
		if long[k] {
			for i := 0; i < extra; i++ {
				plane = append(plane, byte(0xA0+k+i%7))
			}
		}
		var seg []byte
		for o := 0; o < len(plane); o += 128 {
			e := o + 128
			if e > len(plane) {
				e = len(plane)
			}
			seg = append(seg, byte(e-o-1))
			seg = append(seg, plane[o:e]...)
		}
		if len(seg)%2 == 1 {
			seg = append(seg, 0)
		}
		segs = append(segs, seg)
	}
	hdr := make([]byte, 64)
	put := func(o int, v uint32) { hdr[o], hdr[o+1], hdr[o+2], hdr[o+3] = byte(v), byte(v>>8), byte(v>>16), byte(v>>24) }
	put(0, uint32(spp))
	off := uint32(64)
	out := hdr
	for k, sg := range segs {
		put(4+4*k, off)
		off += uint32(len(sg))
		out = append(out, sg...)
	}
	copy(out[:64], hdr)
	return c18Image{W: w, H: h, BA: 8, BS: 8, SPP: spp, Planar: 1, Foreign: out}
}

type stormResult struct {
	Ops            int              `json:"ops"`
	Mismatches     []string         `json:"mismatches"`
	GlobalsChanged []string         `json:"globalsChanged"`
	InstChanged    []string         `json:"instancesChanged"`
	Overlapped     int64            `json:"overlapped"`
	MaxInflight    map[string]int64 `json:"maxInflight"`
	GlobalsTracked int              `json:"globalsTracked"`
	LowLevelOps    int              `json:"lowLevelOps"`
	Error          string           `json:"error,omitempty"`
}

func c18Images(r *gen.Rand) map[string][]c18Image {
	out := map[string][]c18Image{}
	for _, ts := range c10Syntaxes {
		for i := 0; i < 4; i++ {
			ba, bs, spp, _ := c10FrameInfo(r, ts)
			if ba == 16 && bs <= 8 {
				bs = 12
			}
			if ts == ".50" || (ts == ".51" && ba == 8) {
				bs = 8
			}
			w, h := 4+r.Intn(28), 4+r.Intn(28)
			fr := gen.PackN(gen.Content(r, gen.Pick(r, "noise", "smooth", "runs"), w, h, spp, bs, 1), ba/8)
			out[ts] = append(out[ts], c18Image{W: w, H: h, BA: ba, BS: bs, SPP: spp, Frame: fr})
		}
	}
	// foreign RLE frames: colour-by-plane, 2^16 pixels and more, exact and over-long segments
	out["rle"] = append(out["rle"],
		c18ForeignRLE(r, 256, 256, 3, map[int]bool{0: true}, 300),
		c18ForeignRLE(r, 300, 257, 3, map[int]bool{0: true, 1: true}, 4000),
		c18ForeignRLE(r, 256, 256, 3, nil, 0))
	return out
}

func instanceDigest(cd dcodec.Codec) string {
	v := reflect.ValueOf(cd)
	if v.Kind() == reflect.Ptr {
		v = v.Elem()
	}
	return fmt.Sprintf("%#v", v.Interface())
}

type callResult struct {
	out []byte
	err string
}

func c18Call(cd dcodec.Codec, im c18Image, encoded []byte, decode bool, params dcodec.Parameters) callResult {
	info := FrameInfo(im.W, im.H, im.BA, im.BS, im.SPP, 0, im.Planar)
	dst := NewPD(info)
	var err error
	if decode {
		err = cd.Decode(NewPD(info, encoded), dst, nil)
	} else {
		err = cd.Encode(NewPD(info, append([]byte(nil), im.Frame...)), dst, params)
	}
	r := callResult{}
	if err != nil {
		r.err = err.Error()
	}
	if len(dst.Frames) > 0 {
		r.out = dst.Frames[0]
	}
	return r
}

// StormMain is the body of `vcheck storm <json case>`; it prints a stormResult.
func StormMain(arg string) int {
	var c c18Case
	if err := json.Unmarshal([]byte(arg), &c); err != nil {
		fmt.Println(`{"error":"bad case"}`)
		return 2
	}
	runtime.GOMAXPROCS(c.Procs)
	res := stormResult{MaxInflight: map[string]int64{}}
	// digests at the quiescent point before any codec has been used
	g0 := globals.Snapshot()
	res.GlobalsTracked = len(g0)
	r := gen.New(c.Seed)
	images := c18Images(r)
	codecs := map[string]dcodec.Codec{}
	inst0 := map[string]string{}
	shared := map[string]dcodec.Parameters{}
	for _, ts := range c10Syntaxes {
		codecs[ts] = Codec(ts)
		inst0[ts] = instanceDigest(codecs[ts])
		if c.Params == "shared" {
			shared[ts] = codecs[ts].GetDefaultParameters()
		}
	}
	// Decode operations need encoded input.  Encoding here would warm the codecs up
	// before the storm, so decode inputs are produced inside the storm by the same
	// goroutine (encode, then decode what it just got).
	type rec struct {
		op  c18Op
		enc callResult
		dec callResult
	}
	plans := make([][]c18Op, c.G)
	for g := range plans {
		for i := 0; i < c.Ops; i++ {
			ts := c10Syntaxes[r.Intn(len(c10Syntaxes))]
			plans[g] = append(plans[g], c18Op{TS: ts, Decode: r.Bool(), Img: r.Intn(len(images[ts]))})
		}
	}
	recs := make([][]rec, c.G)
	var inflight [14]atomic.Int64
	var maxIn [14]atomic.Int64
	var overlapped atomic.Int64
	idx := map[string]int{}
	for i, ts := range c10Syntaxes {
		idx[ts] = i
	}
	paramsFor := func(ts string) dcodec.Parameters {
		switch c.Params {
		case "percall":
			return codecs[ts].GetDefaultParameters()
		case "shared":
			return shared[ts]
		}
		return nil
	}
	enter := func(ts string) {
		n := inflight[idx[ts]].Add(1)
		if n > 1 {
			overlapped.Add(1)
		}
		for {
			m := maxIn[idx[ts]].Load()
			if n <= m || maxIn[idx[ts]].CompareAndSwap(m, n) {
				break
			}
		}
	}
	leave := func(ts string) { inflight[idx[ts]].Add(-1) }
	start := make(chan struct{})
	var wg sync.WaitGroup
	var lowOps atomic.Int64
	for g := 0; g < c.G; g++ {
		wg.Add(1)
		go func(g int) {
			defer wg.Done()
			<-start
			spin := int(gen.Mix(c.Seed, uint64(g)) % 2000)
			for i := 0; i < spin; i++ {
				runtime.Gosched()
			}
			for _, op := range plans[g] {
				im := images[op.TS][op.Img]
				if im.Foreign != nil {
					op.Decode = true
					enter(op.TS)
					d := c18Call(codecs[op.TS], im, im.Foreign, true, nil)
					leave(op.TS)
					recs[g] = append(recs[g], rec{op: op, dec: d})
					continue
				}
				enter(op.TS)
				e := c18Call(codecs[op.TS], im, nil, false, paramsFor(op.TS))
				leave(op.TS)
				rc := rec{op: op, enc: e}
				if op.Decode && e.err == "" {
					enter(op.TS)
					rc.dec = c18Call(codecs[op.TS], im, e.out, true, nil)
					leave(op.TS)
				}
				recs[g] = append(recs[g], rc)
				if g%4 == 0 {
					c18LowLevel(gen.Mix(c.Seed, uint64(g), uint64(len(recs[g]))))
					lowOps.Add(1)
				}
			}
		}(g)
	}
	close(start)
	wg.Wait()
	// quiescent point: digests after the storm
	g1 := globals.Snapshot()
	for k, v := range g0 {
		if g1[k] != v {
			res.GlobalsChanged = append(res.GlobalsChanged, k)
		}
	}
	sort.Strings(res.GlobalsChanged)
	for _, ts := range c10Syntaxes {
		if instanceDigest(codecs[ts]) != inst0[ts] {
			res.InstChanged = append(res.InstChanged, ts)
		}
	}
	// solo references, computed sequentially afterwards with fresh parameter objects
	soloEnc := map[string]callResult{}
	soloDec := map[string]callResult{}
	for g := range recs {
		for i, rc := range recs[g] {
			res.Ops++
			key := fmt.Sprintf("%s/%d", rc.op.TS, rc.op.Img)
			se, ok := soloEnc[key]
			if foreign := images[rc.op.TS][rc.op.Img].Foreign; foreign != nil {
				// foreign stream: the operation was a Decode of it
				se, ok = callResult{out: foreign}, true
			}
			if !ok {
				var p dcodec.Parameters
				if c.Params != "nil" {
					p = codecs[rc.op.TS].GetDefaultParameters()
				}
				se = c18Call(codecs[rc.op.TS], images[rc.op.TS][rc.op.Img], nil, false, p)
				soloEnc[key] = se
			}
			if images[rc.op.TS][rc.op.Img].Foreign == nil && (se.err != rc.enc.err || !bytes.Equal(se.out, rc.enc.out)) {
				if len(res.Mismatches) < 20 {
					res.Mismatches = append(res.Mismatches, fmt.Sprintf("goroutine %d op %d: Encode %s image %d under concurrency returned err=%q len=%d, alone err=%q len=%d (first diff %d)", g, i, rc.op.TS, rc.op.Img, rc.enc.err, len(rc.enc.out), se.err, len(se.out), firstDiff(se.out, rc.enc.out)))
				}
				continue
			}
			if rc.op.Decode && rc.enc.err == "" {
				res.Ops++
				sd, ok := soloDec[key]
				if !ok {
					sd = c18Call(codecs[rc.op.TS], images[rc.op.TS][rc.op.Img], se.out, true, nil)
					soloDec[key] = sd
				}
				if sd.err != rc.dec.err || !bytes.Equal(sd.out, rc.dec.out) {
					if len(res.Mismatches) < 20 {
						res.Mismatches = append(res.Mismatches, fmt.Sprintf("goroutine %d op %d: Decode %s image %d under concurrency returned err=%q len=%d, alone err=%q len=%d", g, i, rc.op.TS, rc.op.Img, rc.dec.err, len(rc.dec.out), sd.err, len(sd.out)))
					}
				}
			}
		}
	}
	res.Overlapped = overlapped.Load()
	for i, ts := range c10Syntaxes {
		res.MaxInflight[ts] = maxIn[i].Load()
	}
	res.LowLevelOps = int(lowOps.Load())
	b, _ := json.Marshal(res)
	fmt.Println("STORM-RESULT " + string(b))
	return 0
}

// c18LowLevel exercises distinct low-level objects (each goroutine its own).
func c18LowLevel(seed uint64) {
	r := gen.New(seed)
	w, h := 5+r.Intn(12), 5+r.Intn(12)
	px := gen.Pack(gen.Content(r, "noise", w, h, 1, 8, 0), 8)
	p := jpeg2000.DefaultEncodeParams(w, h, 1, 8, false)
	p.NumLevels = 1
	if cs, err := jpeg2000.NewEncoder(p).Encode(px); err == nil {
		d := jpeg2000.NewDecoder()
		_ = d.Decode(cs)
	}
	if s, err := jll.Encode(px, w, h, 1, 8, 1+r.Intn(7)); err == nil {
		_, _, _, _, _, _ = jll.Decode(s)
	}
	e := mqc.NewMQEncoder(3)
	for i := 0; i < 200; i++ {
		e.Encode(r.Intn(2), r.Intn(3))
	}
	d := mqc.NewMQDecoder(e.Flush(), 3)
	for i := 0; i < 50; i++ {
		d.Decode(i % 3)
	}
	v := make([]int32, w*h)
	for i := range v {
		v[i] = int32(r.Intn(512)) - 256
	}
	wavelet.ForwardMultilevelWithParity(v, w, h, 2, r.Intn(2), r.Intn(2))
	colorspace.RCTForward(1, 2, 3)
}

// ---- the driver side

func (c18) Exec(d any) mon.Result {
	c := d.(*c18Case)
	res := mon.Hold()
	res.Cell(fmt.Sprintf("gomaxprocs=%d", c.Procs))
	res.Cell("params=" + c.Params)
	arg, _ := json.Marshal(c)
	scratch := filepath.Join(mon.Root, ".scratch", fmt.Sprintf("c18-%d-%d", os.Getpid(), c.Seed%100000))
	os.MkdirAll(scratch, 0o755)
	defer os.RemoveAll(scratch)
	cmd := exec.Command(mon.Self, "storm", string(arg))
	cmd.Env = append(os.Environ(), "GORACE=halt_on_error=0 log_path="+filepath.Join(scratch, "race"), "GOMAXPROCS="+strconv.Itoa(c.Procs))
	var out, errb bytes.Buffer
	cmd.Stdout, cmd.Stderr = &out, &errb
	runErr := cmd.Run()
	var sr stormResult
	found := false
	sc := bufio.NewScanner(&out)
	sc.Buffer(make([]byte, 1<<20), 1<<26)
	for sc.Scan() {
		if strings.HasPrefix(sc.Text(), "STORM-RESULT ") {
			if json.Unmarshal([]byte(strings.TrimPrefix(sc.Text(), "STORM-RESULT ")), &sr) == nil {
				found = true
			}
		}
	}
	if !found {
		tail := errb.String()
		if len(tail) > 1500 {
			tail = tail[len(tail)-1500:]
		}
		// the storm process died: a crash under concurrency that is not a race report
		return mon.Violation("storm-crashed", fmt.Sprintf("storm child exited without a result (%v): %s", runErr, tail))
	}
	// race reports
	sigs := map[string]int{}
	total := 0
	files, _ := filepath.Glob(filepath.Join(scratch, "race*"))
	for _, f := range files {
		b, _ := os.ReadFile(f)
		for _, blk := range strings.Split(string(b), "==================") {
			if !strings.Contains(blk, "WARNING: DATA RACE") {
				continue
			}
			total++
			sigs[raceSig(blk)]++
		}
	}
	res.AddFeat("operations", int64(sr.Ops))
	res.AddFeat("overlapped_operations", sr.Overlapped)
	res.AddFeat("low_level_object_rounds", int64(sr.LowLevelOps))
	res.AddFeat("package_level_variables_digested", int64(sr.GlobalsTracked))
	res.AddFeat("race_reports", int64(total))
	mx := int64(0)
	for _, v := range sr.MaxInflight {
		if v > mx {
			mx = v
		}
	}
	res.AddFeat(fmt.Sprintf("max_inflight_on_one_instance_%02d", mx), 1)
	var first *mon.Result
	add := func(v mon.Result) {
		if first == nil {
			keepF, keepC := res.Feat, res.Cells
			res = v
			res.Feat, res.Cells = keepF, keepC
			first = &res
		} else {
			res.More = append(res.More, v)
		}
	}
	keys := make([]string, 0, len(sigs))
	for k := range sigs {
		keys = append(keys, k)
	}
	sort.Strings(keys)
	for _, k := range keys {
		v := mon.Violation("data-race:"+k, fmt.Sprintf("%d race report(s) between %s (GOMAXPROCS=%d, params=%s)", sigs[k], k, c.Procs, c.Params))
		add(v.With("raceSites", k))
	}
	for _, g := range sr.GlobalsChanged {
		add(mon.Violation("package-variable-written:"+g, fmt.Sprintf("package-level variable %s changed between the quiescent points before and after the storm (written outside init)", g)))
	}
	for _, ts := range sr.InstChanged {
		add(mon.Violation("codec-instance-written:"+ts, fmt.Sprintf("a field of the registered %s codec instance changed during Encode/Decode", ts)))
	}
	if len(sr.Mismatches) > 0 {
		add(mon.Violation("result-differs-from-solo", strings.Join(sr.Mismatches, "; ")))
	}
	if first == nil && sr.Overlapped == 0 && c.Procs > 1 {
		return mon.Result{V: mon.Inconclusive, Msg: "no overlapping operations were observed", Feat: res.Feat, Cells: res.Cells}
	}
	if !globals.Enabled {
		res.AddFeat("globals_digest_disabled(build without verifglobals)", 1)
	}
	return res
}

// raceSig names a report by the first library frame of each of its two stacks.
func raceSig(blk string) string {
	var sites []string
	lines := strings.Split(blk, "\n")
	want := false
	for _, ln := range lines {
		t := strings.TrimSpace(ln)
		if strings.HasPrefix(t, "Write at") || strings.HasPrefix(t, "Read at") || strings.HasPrefix(t, "Previous write at") || strings.HasPrefix(t, "Previous read at") || strings.HasPrefix(t, "Atomic") || strings.HasPrefix(t, "Previous atomic") {
			want = true
			continue
		}
		if want && strings.Contains(t, "github.com/cocosip/go-dicom-codecs/") {
			fn := strings.TrimPrefix(t, "github.com/cocosip/go-dicom-codecs/")
			if i := strings.LastIndex(fn, "("); i > 0 {
				fn = fn[:i]
			}
			sites = append(sites, fn)
			want = false
		}
		if strings.HasPrefix(t, "Goroutine") {
			want = false
		}
	}
	sort.Strings(sites)
	if len(sites) > 2 {
		sites = sites[:2]
	}
	return strings.Join(sites, " <-> ")
}
