package props

import (
	"encoding/json"
	"fmt"

	dcodec "github.com/cocosip/go-dicom/pkg/imaging/codec"
	"github.com/cocosip/go-dicom/pkg/imaging/imagetypes"

	"github.com/cocosip/go-dicom-codecs/jpeg/baseline"
	"github.com/cocosip/go-dicom-codecs/jpeg/extended"
	jll "github.com/cocosip/go-dicom-codecs/jpeg/lossless"
	"github.com/cocosip/go-dicom-codecs/jpeg/lossless14sv1"
	"github.com/cocosip/go-dicom-codecs/jpeg2000"
	jlsl "github.com/cocosip/go-dicom-codecs/jpegls/lossless"
	jlsn "github.com/cocosip/go-dicom-codecs/jpegls/nearlossless"

	"verif/internal/gen"
	"verif/internal/mon"
)

// C17 — encoders reject unrepresentable input: error, never panic or a
// mis-declared stream.

type c17Case struct {
	Gen string `json:"gen"` // fn | codec
	Enc string `json:"enc"`
	W   int    `json:"w"`
	H   int    `json:"h"`
	C   int    `json:"c"`
	P   int    `json:"p"`
	Par int    `json:"par"` // quality / NEAR / predictor / levels
	CB  int    `json:"cb,omitempty"`
	Len string `json:"len"` // buffer length class: 0,1,row-1,row,need-1,need,need+1
	// codec level
	TS     string `json:"ts,omitempty"`
	BA     int    `json:"ba,omitempty"`
	BS     int    `json:"bs,omitempty"`
	PKind  string `json:"pkind,omitempty"`  // nil | default | generic-garbage | foreign
	Frames string `json:"frames,omitempty"` // ok | zero | empty | short | short1..3 | ok+short | ok+short1 | ok+empty | nilpd | nilinfo
}

type c17 struct{}

func init() { register(c17{}) }

func (c17) ID() string { return "C17" }
func (c17) Rule() string {
	return "every package-level Encode (baseline, extended, lossless, lossless14sv1, jpegls lossless/nearlossless), jpeg2000.Encoder and every registered codec's Encode are called with argument tuples from the cross product of per-argument value sets around every documented limit (-1,0,1,..,limit-1,limit,limit+1,2^15,2^16-1,2^16,2^16+1) and buffer lengths {0,1,row-1,row,need-1,need,need+1}; large extents are always paired with short buffers. Oracles: (1) no panic / abnormal death; (2) whenever a stream is returned the matching decoder returns an image of exactly the requested geometry; (3) an error is required for arguments the API documents as invalid (non-positive or > 65535 dimensions for the T.81/T.87 coders, component count / bit depth outside the documented set, buffer shorter than width*height*components*bytes, quality outside 1..100, NEAR outside 0..255, predictor outside 0..7, NumLevels outside 0..6, code-block size not a power of two in 4..1024). At the DICOM codec level (where Validate() normalises by design) only (1) and (2) apply. " +
		"non-trivial: the encoder was called; distinct = distinct argument tuple"
}
func (c17) Assumptions() []string {
	return []string{"the set of 'documented invalid' arguments is read from the validation code and doc comments of each Encode; merely unwise values get oracles (1) and (2) only"}
}
func (c17) Isolated() bool                          { return true }
func (c17) Decode(raw json.RawMessage) (any, error) { return decodeInto[c17Case](raw) }

var c17Dims = []int{-1, 0, 1, 2, 3, 8, 255, 256, 32768, 65535, 65536, 65537}
var c17Lens = []string{"0", "1", "row-1", "row", "need-1", "need", "need+1"}

func (c17) Build(tier string, seed uint64) []any {
	var cs []any
	th := tier == "thorough"
	keep := func(i int) bool { return th || gen.Mix(seed, uint64(i))%7 == 0 }
	n := 0
	type spec struct {
		enc  string
		cs   []int
		ps   []int
		pars []int
	}
	specs := []spec{
		{"baseline", []int{-1, 0, 1, 2, 3, 4}, []int{8}, []int{-1, 0, 1, 50, 100, 101, 255}},
		{"extended", []int{0, 1, 2, 3, 4}, []int{0, 7, 8, 9, 12, 13, 16}, []int{0, 1, 100, 101}},
		{"lossless", []int{0, 1, 2, 3, 4}, []int{0, 1, 2, 8, 9, 16, 17, 32}, []int{-1, 0, 1, 7, 8}},
		{"sv1", []int{0, 1, 2, 3, 4}, []int{0, 1, 2, 8, 9, 16, 17, 32}, []int{0}},
		{"jls", []int{0, 1, 2, 3, 4}, []int{0, 1, 2, 8, 9, 16, 17, 32, 64}, []int{0}},
		{"jlsnear", []int{0, 1, 3, 4}, []int{1, 2, 8, 16, 17}, []int{-1, 0, 1, 3, 127, 255, 256}},
		{"j2k", []int{0, 1, 2, 3, 4, 5}, []int{0, 1, 8, 16, 17, 32}, []int{-1, 0, 6, 7}},
	}
	for _, sp := range specs {
		for _, w := range c17Dims {
			for _, h := range c17Dims {
				for _, c := range sp.cs {
					for _, p := range sp.ps {
						for _, par := range sp.pars {
							for _, ln := range c17Lens {
								n++
								if !keep(n) {
									continue
								}
								cc := &c17Case{Gen: "fn", Enc: sp.enc, W: w, H: h, C: c, P: p, Par: par, Len: ln}
								if sp.enc == "j2k" {
									cc.CB = []int{64, 3, 4, 48, 2048, 0}[n%6]
								}
								cs = append(cs, cc)
							}
						}
					}
				}
			}
		}
	}
	// codec level
	k := 0
	for _, ts := range c10Syntaxes {
		for _, pk := range []string{"nil", "default", "generic-garbage", "foreign"} {
			for _, fr := range []string{"ok", "zero", "empty", "short", "short1", "short2", "short3", "ok+short", "ok+short1", "ok+empty", "nilpd", "nilinfo"} {
				for _, geo := range [][6]int{{8, 8, 8, 8, 1, 0}, {7, 5, 16, 12, 1, 0}, {5, 4, 8, 8, 3, 0}, {0, 5, 8, 8, 1, 0}, {5, 0, 16, 16, 1, 1}, {4, 4, 8, 8, 0, 0}, {4, 4, 8, 8, 2, 0}, {4, 4, 8, 8, 4, 0},
					{4, 4, 0, 0, 1, 0}, {4, 4, 1, 1, 1, 0}, {4, 4, 32, 32, 1, 0}, {4, 4, 16, 17, 1, 0}, {4, 4, 8, 0, 1, 0}, {65535, 1, 8, 8, 1, 0}, {4, 4, 16, 16, 5, 0}, {3, 3, 24, 24, 1, 0}, {4, 4, 32, 32, 4, 0}, {2, 2, 64, 64, 3, 0}, {2, 2, 16, 16, 9, 0}, {3, 2, 16, 8, 1, 0},
					// sample counts whose product with the bytes per sample wraps in 16 bits
					{1, 1, 16, 16, 32769, 0}, {1, 1, 16, 16, 32775, 0}, {1, 1, 24, 24, 21846, 0}, {1, 1, 32, 32, 16385, 0}, {1, 1, 64, 64, 8193, 0}, {1, 1, 16, 16, 65535, 0}, {1, 2, 16, 16, 32768, 0}, {1, 1, 8, 8, 65535, 0}} {
					k++
					if !th && gen.Mix(seed, 9, uint64(k))%3 != 0 {
						continue
					}
					cs = append(cs, &c17Case{Gen: "codec", TS: ts, W: geo[0], H: geo[1], BA: geo[2], BS: geo[3], C: geo[4], Par: geo[5], PKind: pk, Frames: fr})
				}
			}
		}
	}
	return cs
}

// foreignParams is a Parameters implementation that answers every key with a wrongly typed value.
type foreignParams struct{ n int }

func (f *foreignParams) GetParameter(name string) interface{} {
	f.n++
	switch f.n % 5 {
	case 0:
		return "a string"
	case 1:
		return -1.5
	case 2:
		return []byte{1}
	case 3:
		return int64(-7)
	}
	return struct{}{}
}
func (f *foreignParams) SetParameter(string, interface{}) {}

func (c *c17Case) bytesPer() int {
	if c.P <= 8 {
		return 1
	}
	return 2
}

func (c *c17Case) need() int64 {
	if c.W <= 0 || c.H <= 0 || c.C <= 0 {
		return 0
	}
	return int64(c.W) * int64(c.H) * int64(c.C) * int64(c.bytesPer())
}

// buffer returns the pixel buffer for the length class; large extents always get short buffers.
func (c *c17Case) buffer() []byte {
	need := c.need()
	row := int64(0)
	if c.W > 0 && c.C > 0 {
		row = int64(c.W) * int64(c.C) * int64(c.bytesPer())
	}
	var n int64
	switch c.Len {
	case "0":
		n = 0
	case "1":
		n = 1
	case "row-1":
		n = row - 1
	case "row":
		n = row
	case "need-1":
		n = need - 1
	case "need":
		n = need
	default:
		n = need + 1
	}
	if n < 0 {
		n = 0
	}
	if n > 1<<21 {
		n = 1 << 16 // never allocate something large legitimately: a huge image gets a short buffer
	}
	b := make([]byte, n)
	for i := range b {
		b[i] = byte(i*37 + 11)
	}
	if c.P > 0 && c.P < 16 && c.bytesPer() == 2 {
		for i := 1; i < len(b); i += 2 {
			b[i] &= byte(1<<uint(c.P-8)) - 1
		}
	} else if c.P > 0 && c.P < 8 {
		for i := range b {
			b[i] &= byte(1<<uint(c.P)) - 1
		}
	}
	return b
}

func inSet(v int, set ...int) bool {
	for _, s := range set {
		if v == s {
			return true
		}
	}
	return false
}

// mustReject says whether the documented contract requires an error, and why.
func (c *c17Case) mustReject(bufLen int) (bool, string) {
	if c.W <= 0 || c.H <= 0 {
		return true, "non-positive dimensions"
	}
	if c.Enc != "j2k" && (c.W > 65535 || c.H > 65535) {
		return true, "dimension above 65535 for a format with 16-bit size fields"
	}
	switch c.Enc {
	case "baseline":
		if !inSet(c.C, 1, 3) {
			return true, "components not in {1,3}"
		}
		if c.Par < 1 || c.Par > 100 {
			return true, "quality outside 1..100"
		}
	case "extended":
		if !inSet(c.C, 1, 3) {
			return true, "components not in {1,3}"
		}
		if !inSet(c.P, 8, 12) {
			return true, "bit depth not in {8,12}"
		}
		if c.Par < 1 || c.Par > 100 {
			return true, "quality outside 1..100"
		}
	case "lossless", "sv1", "jls", "jlsnear":
		if !inSet(c.C, 1, 3) {
			return true, "components not in {1,3}"
		}
		if c.P < 2 || c.P > 16 {
			return true, "bit depth outside 2..16"
		}
		if c.Enc == "lossless" && (c.Par < 0 || c.Par > 7) {
			return true, "predictor outside 0..7"
		}
		if c.Enc == "jlsnear" && (c.Par < 0 || c.Par > 255) {
			return true, "NEAR outside 0..255"
		}
	case "j2k":
		if c.C < 1 || c.C > 4 {
			return true, "components outside 1..4"
		}
		if c.P < 1 || c.P > 16 {
			return true, "bit depth outside 1..16"
		}
		if c.Par < 0 || c.Par > 6 {
			return true, "NumLevels outside 0..6"
		}
		if c.CB < 4 || c.CB > 1024 || c.CB&(c.CB-1) != 0 {
			return true, "code-block size not a power of two in 4..1024"
		}
	}
	if int64(bufLen) < c.need() {
		return true, fmt.Sprintf("pixel buffer of %d bytes shorter than width*height*components*bytes = %d", bufLen, c.need())
	}
	return false, ""
}

func (c17) Exec(d any) mon.Result {
	c := d.(*c17Case)
	res := mon.Hold()
	if c.Gen == "codec" {
		return c17Codec(c, res)
	}
	res.Cell("enc=" + c.Enc)
	buf := c.buffer()
	mon.RecordInput(fmt.Sprintf("C17 %+v", *c), nil)
	var stream []byte
	var err error
	switch c.Enc {
	case "baseline":
		stream, err = baseline.Encode(buf, c.W, c.H, c.C, c.Par)
	case "extended":
		stream, err = extended.Encode(buf, c.W, c.H, c.C, c.P, c.Par)
	case "lossless":
		stream, err = jll.Encode(buf, c.W, c.H, c.C, c.P, c.Par)
	case "sv1":
		stream, err = lossless14sv1.Encode(buf, c.W, c.H, c.C, c.P)
	case "jls":
		stream, err = jlsl.Encode(buf, c.W, c.H, c.C, c.P)
	case "jlsnear":
		stream, err = jlsn.Encode(buf, c.W, c.H, c.C, c.P, c.Par)
	case "j2k":
		p := jpeg2000.DefaultEncodeParams(c.W, c.H, c.C, c.P, false)
		p.NumLevels = c.Par
		p.CodeBlockWidth, p.CodeBlockHeight = c.CB, c.CB
		enc := jpeg2000.NewEncoder(p)
		// every other tuple reaches the call on an Encoder object that has already encoded one
		// full-size frame (state kept between calls must not replace the argument checks)
		if need := c.need(); (c.W+c.H+c.C+c.P+len(buf))%2 == 0 && need > 0 && need <= 1<<16 && int64(len(buf)) != need {
			func() {
				defer func() { _ = recover() }()
				_, _ = enc.Encode(make([]byte, need))
			}()
		}
		stream, err = enc.Encode(buf)
	}
	reject, why := c.mustReject(len(buf))
	if reject {
		res.Cell("expect=error")
		if err == nil {
			return mon.Violation("accepted-invalid-argument", fmt.Sprintf("%s accepted %s (w=%d h=%d c=%d P=%d par=%d cb=%d buffer=%d bytes) and returned a %d-byte stream", c.Enc, why, c.W, c.H, c.C, c.P, c.Par, c.CB, len(buf), len(stream)))
		}
		return res
	}
	res.Cell("expect=any")
	if err != nil {
		return res // an error is always allowed
	}
	// (2) a returned stream must decode to exactly the requested geometry
	if c.need() > 1<<22 {
		return res
	}
	var dw, dh, dc, dp int
	var derr error
	switch c.Enc {
	case "baseline":
		_, dw, dh, dc, derr = baseline.Decode(stream)
		dp = 8
	case "extended":
		_, dw, dh, dc, dp, derr = extended.Decode(stream)
	case "lossless":
		_, dw, dh, dc, dp, derr = jll.Decode(stream)
	case "sv1":
		_, dw, dh, dc, dp, derr = lossless14sv1.Decode(stream)
	case "jls":
		_, dw, dh, dc, dp, derr = jlsl.Decode(stream)
	case "jlsnear":
		_, dw, dh, dc, dp, _, derr = jlsn.Decode(stream)
	case "j2k":
		dec := jpeg2000.NewDecoder()
		derr = dec.Decode(stream)
		if derr == nil {
			dw, dh, dc, dp = dec.Width(), dec.Height(), dec.Components(), dec.BitDepth()
		}
	}
	if derr != nil {
		return mon.Violation("returned-stream-undecodable", fmt.Sprintf("%s returned a stream for w=%d h=%d c=%d P=%d par=%d that its decoder rejects: %v", c.Enc, c.W, c.H, c.C, c.P, c.Par, derr))
	}
	if dw != c.W || dh != c.H || dc != c.C || dp != c.P {
		return mon.Violation("mis-declared-stream", fmt.Sprintf("%s returned a stream that decodes to %dx%d c=%d P=%d, requested %dx%d c=%d P=%d", c.Enc, dw, dh, dc, dp, c.W, c.H, c.C, c.P))
	}
	return res
}

type nilInfoPD struct{ *PD }

func (nilInfoPD) GetFrameInfo() *imagetypes.FrameInfo { return nil }

func c17Codec(c *c17Case, res mon.Result) mon.Result {
	res.Cell("codec=" + c.TS)
	res.Cell("params=" + c.PKind + "/frames=" + c.Frames)
	cd := Codec(c.TS)
	info := FrameInfo(c.W, c.H, c.BA, c.BS, c.C, c.Par, 0)
	info.BitsStored, info.HighBit = uint16(c.BS), uint16(c.BS-1)
	bytesPer := (c.BA + 7) / 8
	need := c.W * c.H * c.C * bytesPer
	if need < 0 || need > 1<<20 {
		need = 1 << 12
	}
	frame := make([]byte, need)
	for i := range frame {
		frame[i] = byte(i * 13)
	}
	var src imagetypes.PixelData
	switch c.Frames {
	case "ok":
		src = NewPD(info, frame)
	case "zero":
		src = NewPD(info)
	case "empty":
		src = NewPD(info, []byte{})
	case "short":
		if len(frame) > 1 {
			src = NewPD(info, frame[:len(frame)/2])
		} else {
			src = NewPD(info, []byte{})
		}
	case "short1", "short2", "short3":
		k := int(c.Frames[5] - '0')
		if len(frame) > k {
			src = NewPD(info, frame[:len(frame)-k])
		} else {
			src = NewPD(info, []byte{})
		}
	case "ok+short", "ok+short1", "ok+empty": // a valid first frame followed by an unusable one
		second := []byte{}
		switch {
		case c.Frames == "ok+short" && len(frame) > 1:
			second = frame[:len(frame)/2]
		case c.Frames == "ok+short1" && len(frame) > 1:
			second = frame[:len(frame)-1]
		}
		src = NewPD(info, frame, second)
	case "nilpd":
		src = nil
	case "nilinfo":
		src = nilInfoPD{NewPD(info, frame)}
	}
	var params dcodec.Parameters
	switch c.PKind {
	case "default":
		params = cd.GetDefaultParameters()
	case "generic-garbage":
		p := dcodec.NewBaseParameters()
		for _, k := range []string{"quality", "near", "predictor", "rate", "numLevels", "numLayers", "targetRatio", "blockWidth", "blockHeight", "rateLevels", "progressionOrder", "bitDepth", "allowMCT"} {
			p.SetParameter(k, []any{-1, 0, 1 << 30, "x", 3.5, nil, true}[(len(k)+c.W+c.H)%7])
		}
		params = p
	case "foreign":
		params = &foreignParams{}
	}
	mon.RecordInput(fmt.Sprintf("C17 %+v", *c), nil)
	dst := NewPD(info)
	err := cd.Encode(src, dst, params)
	if err != nil {
		return res
	}
	if src == nil {
		return mon.Violation("accepted-nil-pixeldata", "Encode returned nil error for a nil source PixelData")
	}
	// whatever was returned must decode to the requested frame geometry
	n := 0
	if pd, ok := src.(*PD); ok {
		n = len(pd.Frames)
	} else {
		n = 1
	}
	if len(dst.Frames) != n {
		return mon.Violation("frame-count", fmt.Sprintf("Encode returned nil error with %d output frames for %d input frames", len(dst.Frames), n))
	}
	if n == 0 {
		return res
	}
	out := NewPD(info)
	if derr := cd.Decode(NewPD(info, dst.Frames...), out, nil); derr != nil {
		return mon.Violation("returned-stream-undecodable", fmt.Sprintf("codec %s encoded FrameInfo{%dx%d BA=%d BS=%d SPP=%d} (%s frames, %s params) without error but cannot decode its own output: %v", c.TS, c.W, c.H, c.BA, c.BS, c.C, c.Frames, c.PKind, derr))
	}
	want := c.W * c.H * c.C * bytesPer
	if c.TS == "rle" && want%2 == 1 {
		want++
	}
	// the container question (BitsAllocated=16 with BitsStored<=8 decoding to one byte per
	// sample) is C10's; for C17 the geometry is right when the sample count is right
	alt := c.W * c.H * c.C * ((c.BS + 7) / 8)
	if len(out.Frames) != n || (len(out.Frames[0]) != want && len(out.Frames[0]) != alt) {
		got := -1
		if len(out.Frames) > 0 {
			got = len(out.Frames[0])
		}
		r := mon.Violation("mis-declared-stream", fmt.Sprintf("codec %s accepted FrameInfo{%dx%d BA=%d BS=%d SPP=%d} (%s frames) and its output decodes to %d bytes, the frame description needs %d", c.TS, c.W, c.H, c.BA, c.BS, c.C, c.Frames, got, want))
		return r.With("wideContainer", c.BA == 16 && c.BS <= 8).With("shortFrame", c.Frames == "short")
	}
	return res
}

func (c17) ClassifyDeath(desc any, kind, msg, frame string, cur []byte) mon.Result {
	c := desc.(*c17Case)
	return mon.Result{V: mon.Violated, Class: "death:" + kind + "@" + frame, Msg: fmt.Sprintf("encoder call brought the process down (%s): %s; arguments %+v", kind, msg, *c), NonTrivial: true}
}
