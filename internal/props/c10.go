package props

import (
	"bytes"
	"encoding/json"
	"fmt"

	dcodec "github.com/cocosip/go-dicom/pkg/imaging/codec"

	"github.com/cocosip/go-dicom-codecs/jpeg/baseline"
	"github.com/cocosip/go-dicom-codecs/jpeg/extended"
	jll "github.com/cocosip/go-dicom-codecs/jpeg/lossless"
	"github.com/cocosip/go-dicom-codecs/jpeg/lossless14sv1"
	"github.com/cocosip/go-dicom-codecs/jpeg2000"
	"github.com/cocosip/go-dicom-codecs/jpeg2000/htj2k"
	j2kl "github.com/cocosip/go-dicom-codecs/jpeg2000/lossless"
	j2ky "github.com/cocosip/go-dicom-codecs/jpeg2000/lossy"
	jlsl "github.com/cocosip/go-dicom-codecs/jpegls/lossless"
	jlsn "github.com/cocosip/go-dicom-codecs/jpegls/nearlossless"
	"github.com/cocosip/go-dicom-codecs/rle"

	"verif/internal/gen"
	"verif/internal/mon"
)

// C10 — DICOM codec contract: frames map 1:1, in order, independently,
// deterministically; object histories on jpeg2000.Encoder / Decoder.

type c10Frame struct {
	Class string `json:"class"`
	CSeed uint64 `json:"cseed"`
}

type c10Stream struct {
	Kind  string `json:"kind"` // plain | rct | nomct | custommct | binding | roi | lossy | layers
	W     int    `json:"w"`
	H     int    `json:"h"`
	C     int    `json:"c"`
	P     int    `json:"p"`
	CSeed uint64 `json:"cseed"`
}

type c10Case struct {
	Gen     string     `json:"gen"` // codec | encobj | decobj
	TS      string     `json:"ts,omitempty"`
	W       int        `json:"w,omitempty"`
	H       int        `json:"h,omitempty"`
	BA      int        `json:"ba,omitempty"`
	BS      int        `json:"bs,omitempty"`
	SPP     int        `json:"spp,omitempty"`
	PR      int        `json:"pr,omitempty"`
	Pattern string     `json:"pattern,omitempty"`
	PKind   string     `json:"pkind,omitempty"` // nil | default | typed
	PSeed   uint64     `json:"pseed,omitempty"` // typed: the values written into the parameter object
	Frames  []c10Frame `json:"frames,omitempty"`
	// encobj
	EncKind string `json:"enckind,omitempty"`
	// decobj
	Streams []c10Stream `json:"streams,omitempty"`
}

type c10 struct{}

func init() { register(c10{}) }

func (c10) ID() string { return "C10" }
func (c10) Rule() string {
	return "(codec) for each of the 14 registered syntaxes and a frame sequence of length 1..8: the harness PixelData records every GetFrame/AddFrame; oracles: one AddFrame per input in order, output i of the n-frame call == output of a solo call on frame i (same registry instance and a newly constructed instance), repeating the call after an unrelated call gives identical bytes, source buffers (with canary-filled spare capacity) unchanged, decoded frame length = Rows*Columns*SamplesPerPixel*ceil(BitsAllocated/8) (RLE: even), lossless syntaxes decode to the source. " +
		"(encobj) one jpeg2000.Encoder encoding a sequence of different frames vs a fresh Encoder per frame; (decobj) one jpeg2000.Decoder decoding a sequence of unrelated streams (plain, RCT, custom MCT markers, MCT bindings, ROI with private COM marker, lossy, multi-layer; different sizes/components) vs a fresh Decoder per stream, comparing error, geometry and pixel bytes. " +
		"(typed) a quarter of the histories of .50 .51 .57 .81 .90 .91 .92 .93 pass the codec's own parameter type with non-default values (explicit sub-band steps with a scale for .91/.93); the n-frame call, the rejected calls and the repeated call share one object, solo reference calls get fresh equal ones; (stats) 16-bit Fibonacci-category frames through .57/.70 and speckle-with-annotation frames through .50/.51. " +
		"non-trivial: at least one frame went through every oracle of its kind; distinct = distinct descriptor (history)"
}
func (c10) Assumptions() []string {
	return []string{"the solo call on a fresh instance is the model of 'depends only on frame i, the frame description and the parameters'"}
}
func (c10) Decode(raw json.RawMessage) (any, error) { return decodeInto[c10Case](raw) }

var c10Lossless = map[string]bool{"rle": true, ".57": true, ".70": true, ".80": true, ".90": true, ".92": true, ".201": true, ".202": true}

// newInstance constructs a codec object that is not the registry's.
func newInstance(ts string) dcodec.Codec {
	switch ts {
	case "rle":
		return rle.NewRLECodec()
	case ".50":
		return baseline.NewBaselineCodec(85)
	case ".51":
		return extended.NewExtendedCodec(12, 85)
	case ".57":
		return jll.NewLosslessCodec(4)
	case ".70":
		return lossless14sv1.NewLosslessSV1Codec()
	case ".80":
		return jlsl.NewJPEGLSLosslessCodec()
	case ".81":
		return jlsn.NewJPEGLSNearLosslessCodec(2)
	case ".90":
		return j2kl.NewCodec()
	case ".92":
		return j2kl.NewPart2MultiComponentLosslessCodec()
	case ".91":
		return j2ky.NewCodec()
	case ".93":
		return j2ky.NewPart2MultiComponentCodec()
	case ".201":
		return htj2k.NewLosslessCodec()
	case ".202":
		return htj2k.NewLosslessRPCLCodec()
	case ".203":
		return htj2k.NewCodec(80)
	}
	return nil
}

// frame descriptions each syntax supports (ba, bs ranges)
func c10FrameInfo(r *gen.Rand, ts string) (ba, bs, spp, pr int) {
	spp = gen.Pick(r, 1, 1, 3)
	pr = gen.Pick(r, 0, 0, 1)
	switch ts {
	case ".50":
		ba = 8
		bs = 2 + r.Intn(7)
		pr = 0
	case ".51":
		if r.Bool() {
			ba, bs = 8, 2+r.Intn(7)
		} else {
			ba, bs = 16, 9+r.Intn(4)
			spp = 1
		}
		pr = 0
	default:
		ba = gen.Pick(r, 8, 16)
		bs = 2 + r.Intn(ba-1)
		if r.Chance(1, 3) {
			bs = ba
		}
	}
	return
}

var c10Syntaxes = []string{"rle", ".50", ".51", ".57", ".70", ".80", ".81", ".90", ".91", ".92", ".93", ".201", ".202", ".203"}

func (c10) Build(tier string, seed uint64) []any {
	var cs []any
	per, nEnc, nDec := 60, 240, 320
	if tier == "thorough" {
		per, nEnc, nDec = 1500, 4000, 10000
	}
	patterns := []string{"random", "permutation", "repeat", "alternate", "single", "subseq"}
	for _, ts := range c10Syntaxes {
		for i := 0; i < per; i++ {
			r := gen.Sub(seed, "C10", "codec"+ts, i)
			c := &c10Case{Gen: "codec", TS: ts, W: 1 + r.Intn(48), H: 1 + r.Intn(48)}
			c.BA, c.BS, c.SPP, c.PR = c10FrameInfo(r, ts)
			c.Pattern = patterns[i%len(patterns)]
			c.PKind = gen.Pick(r, "nil", "default")
			if i%4 == 3 && (ts == ".50" || ts == ".51" || ts == ".57" || ts == ".81" || ts == ".90" || ts == ".91" || ts == ".92" || ts == ".93") {
				c.PKind, c.PSeed = "typed", r.U64()
				if c.W < 2 {
					c.W = 2
				}
				if c.H < 2 {
					c.H = 2
				}
			}
			n := 1 + r.Intn(8)
			base := make([]c10Frame, 0, 8)
			for k := 0; k < 4; k++ {
				base = append(base, c10Frame{Class: gen.Pick(r, "noise", "smooth", "const", "runs", "ramp", "altext"), CSeed: r.U64()})
			}
			switch c.Pattern {
			case "single":
				c.Frames = base[:1]
			case "repeat":
				for k := 0; k < n; k++ {
					c.Frames = append(c.Frames, base[0])
				}
			case "alternate":
				a, b := c10Frame{"noise", r.U64()}, c10Frame{"const", r.U64()}
				for k := 0; k < n; k++ {
					if k%2 == 0 {
						c.Frames = append(c.Frames, a)
					} else {
						c.Frames = append(c.Frames, b)
					}
				}
			case "permutation":
				perm := []int{0, 1, 2, 3}
				for k := 3; k > 0; k-- {
					j := r.Intn(k + 1)
					perm[k], perm[j] = perm[j], perm[k]
				}
				for _, k := range perm {
					c.Frames = append(c.Frames, base[k])
				}
			case "subseq":
				for k := 0; k < 4; k++ {
					if r.Bool() || len(c.Frames) == 0 && k == 3 {
						c.Frames = append(c.Frames, base[k])
					}
				}
			default:
				for k := 0; k < n; k++ {
					c.Frames = append(c.Frames, c10Frame{Class: gen.Pick(r, "noise", "smooth", "const", "runs"), CSeed: r.U64()})
				}
			}
			cs = append(cs, c)
		}
	}
	// frames whose pixel count is around 2^16 with moderate dimensions, two per history
	for j, ts := range c10Syntaxes {
		g := areaSizes(true, seed)
		sz := g[(j+int(seed))%len(g)]
		if tier != "thorough" && (j+int(seed))%3 != 0 && ts != "rle" {
			continue
		}
		r := gen.Sub(seed, "C10", "area"+ts, j)
		c := &c10Case{Gen: "codec", TS: ts, W: sz[0], H: sz[1], Pattern: "alternate", PKind: "nil"}
		c.BA, c.BS, c.SPP, c.PR = c10FrameInfo(r, ts)
		c.Frames = []c10Frame{{"noise", r.U64()}, {"smooth", r.U64()}}
		cs = append(cs, c)
	}
	// (stats) frames whose symbol statistics drive the image-specific Huffman tables of the T.81
	// codecs to their length limit (16-bit Fibonacci category profile; speckle with annotations)
	for j, st := range []struct {
		ts         string
		ba, bs, sp int
		class      string
	}{{".57", 16, 16, 1, "fibcat"}, {".70", 16, 16, 1, "fibcat"}, {".57", 16, 16, 3, "fibcat"}, {".50", 8, 8, 1, "annot"}, {".50", 8, 8, 3, "annot"}, {".51", 16, 12, 1, "annot"}, {".70", 16, 15, 1, "fibcat"}} {
		if tier != "thorough" && j >= 4 && (j+int(seed))%2 == 0 {
			continue
		}
		r := gen.Sub(seed, "C10", "stats", j)
		c := &c10Case{Gen: "codec", TS: st.ts, W: 70 + r.Intn(40), H: 70 + r.Intn(40), BA: st.ba, BS: st.bs, SPP: st.sp, Pattern: "stats", PKind: "nil"}
		c.Frames = []c10Frame{{st.class, r.U64()}, {"noise", r.U64()}, {st.class, r.U64()}}
		cs = append(cs, c)
	}
	encKinds := []string{"reversible", "irreversible", "rev-mct", "irr-mct", "layers", "roi", "ht", "custommct", "tiles", "irr-q", "rate"}
	for i := 0; i < nEnc; i++ {
		r := gen.Sub(seed, "C10", "encobj", i)
		c := &c10Case{Gen: "encobj", EncKind: encKinds[i%len(encKinds)], W: 4 + r.Intn(44), H: 4 + r.Intn(44), BS: gen.Pick(r, 8, 12, 16)}
		c.SPP = 1
		if c.EncKind == "rev-mct" || c.EncKind == "irr-mct" || c.EncKind == "custommct" || r.Chance(1, 4) {
			c.SPP = 3
		}
		n := 2 + r.Intn(5)
		for k := 0; k < n; k++ {
			c.Frames = append(c.Frames, c10Frame{Class: gen.Pick(r, "noise", "const", "smooth", "altext", "runs"), CSeed: r.U64()})
		}
		// the same frame again at the end: must equal its first encoding
		c.Frames = append(c.Frames, c.Frames[0])
		cs = append(cs, c)
	}
	kinds := []string{"plain", "rct", "nomct", "custommct", "binding", "roi", "lossy", "layers", "lossy-ict"}
	for i := 0; i < nDec; i++ {
		r := gen.Sub(seed, "C10", "decobj", i)
		c := &c10Case{Gen: "decobj"}
		n := 2 + r.Intn(5)
		for k := 0; k < n; k++ {
			kd := gen.Pick(r, kinds...)
			s := c10Stream{Kind: kd, W: 4 + r.Intn(36), H: 4 + r.Intn(36), P: gen.Pick(r, 8, 8, 12, 16), CSeed: r.U64()}
			switch kd {
			case "plain":
				s.C = 1
			case "binding":
				s.C = 2
			case "roi", "lossy", "layers":
				s.C = gen.Pick(r, 1, 3)
			default:
				s.C = 3
			}
			c.Streams = append(c.Streams, s)
		}
		cs = append(cs, c)
	}
	return cs
}

func (c *c10Case) expectedLen() int {
	n := c.W * c.H * c.SPP * ((c.BA + 7) / 8)
	if c.TS == "rle" && n%2 == 1 {
		n++
	}
	return n
}

// canaryFrame returns b re-allocated with 32 bytes of spare capacity filled with a pattern.
func canaryFrame(b []byte) []byte {
	buf := make([]byte, len(b)+32)
	copy(buf, b)
	for i := len(b); i < len(buf); i++ {
		buf[i] = 0xA5 ^ byte(i)
	}
	return buf[:len(b)]
}

func canaryIntact(b []byte) bool {
	full := b[:cap(b)]
	if cap(b) != len(b)+32 {
		return false
	}
	for i := len(b); i < len(full); i++ {
		if full[i] != 0xA5^byte(i) {
			return false
		}
	}
	return true
}

func (c10) Exec(d any) mon.Result {
	c := d.(*c10Case)
	switch c.Gen {
	case "codec":
		return c10Codec(c)
	case "encobj":
		return c10EncObj(c)
	case "decobj":
		return c10DecObj(c)
	}
	return mon.Result{V: mon.Inconclusive, Msg: "unknown gen"}
}

func (c10) Derive(d any) map[string]any {
	c := d.(*c10Case)
	return map[string]any{"wideContainer": c.BA == 16 && c.BS <= 8, "nframes": len(c.Frames)}
}

func c10Params(cd dcodec.Codec, kind string) dcodec.Parameters {
	if kind == "default" {
		return cd.GetDefaultParameters()
	}
	return nil
}

// c10ParamsFor returns a new parameter object for the case: nil, the codec's defaults, or (typed)
// the codec's own parameter type with non-default values determined by PSeed.  Equal calls get
// equal objects; the judged n-frame call, the rejected calls and the repeated call share ONE
// object (a caller reusing its configuration), the solo reference calls get fresh equal ones.
func c10ParamsFor(cd dcodec.Codec, c *c10Case) dcodec.Parameters {
	if c.PKind != "typed" {
		return c10Params(cd, c.PKind)
	}
	p := cd.GetDefaultParameters()
	if p == nil {
		return nil
	}
	r := gen.New(c.PSeed)
	switch c.TS {
	case ".50", ".51":
		p.SetParameter("quality", 1+r.Intn(100))
	case ".57":
		p.SetParameter("predictor", 1+r.Intn(7))
	case ".81":
		p.SetParameter("near", r.Intn(6))
	case ".90", ".92":
		p.SetParameter("numLevels", r.Intn(4))
		p.SetParameter("numLayers", 1+r.Intn(3))
		p.SetParameter("progressionOrder", r.Intn(5))
		p.SetParameter("rate", gen.Pick(r, 0, 20, 40))
		p.SetParameter("appendLosslessLayer", true)
		p.SetParameter("allowMCT", r.Bool())
	case ".91", ".93":
		// explicit sub-band steps: 3L+1 entries for the effective level count (frames up to 48
		// samples on the short side are limited to one level by the codec)
		l := r.Intn(2)
		steps := make([]float64, 3*l+1)
		for i := range steps {
			steps[i] = 0.5 + float64(r.Intn(16))/2
		}
		p.SetParameter("numLevels", l)
		p.SetParameter("subbandSteps", steps)
		p.SetParameter("quantStepScale", gen.Pick(r, 0.5, 1.0, 1.5, 2.0, 2.0))
		p.SetParameter("rate", 20+r.Intn(76))
		p.SetParameter("numLayers", 1+r.Intn(2))
		p.SetParameter("allowMCT", r.Bool())
	}
	return p
}

func c10Codec(c *c10Case) mon.Result {
	res := mon.Hold()
	res.Cell("ts=" + c.TS)
	res.Cell("pattern=" + c.Pattern)
	res.Cell(fmt.Sprintf("nframes=%d", len(c.Frames)))
	res.Cell(fmt.Sprintf("ba=%d/bs=%02d", c.BA, c.BS))
	cd := Codec(c.TS)
	mainP := c10ParamsFor(cd, c)
	info := FrameInfo(c.W, c.H, c.BA, c.BS, c.SPP, c.PR, 0)
	bytesPer := c.BA / 8
	var frames, keep [][]byte
	for _, f := range c.Frames {
		s := gen.Content(gen.New(f.CSeed), f.Class, c.W, c.H, c.SPP, c.BS, 2)
		b := canaryFrame(gen.PackN(s, bytesPer))
		frames = append(frames, b)
		keep = append(keep, append([]byte(nil), b...))
	}
	n := len(frames)
	fail := func(class, msg string) mon.Result {
		res.V, res.Class, res.Msg = mon.Violated, class, msg
		return res
	}
	checkSources := func(stage string) *mon.Result {
		for i := range frames {
			if !bytes.Equal(frames[i], keep[i]) {
				r := fail("source-modified", fmt.Sprintf("%s: source frame %d was modified", stage, i))
				return &r
			}
			if !canaryIntact(frames[i]) {
				r := fail("source-capacity-written", fmt.Sprintf("%s: spare capacity behind source frame %d was written", stage, i))
				return &r
			}
		}
		return nil
	}
	// ---- n-frame encode on the registry instance
	src := NewPD(info, frames...)
	enc := NewPD(info)
	if err := cd.Encode(src, enc, mainP); err != nil {
		return fail("encode-error", err.Error())
	}
	if r := checkSources("encode"); r != nil {
		return *r
	}
	if len(enc.Frames) != n {
		return fail("frame-count", fmt.Sprintf("Encode produced %d frames for %d inputs", len(enc.Frames), n))
	}
	// log: AddFrame events must be exactly n, GetFrame indices ascending 0..n-1
	adds, lastGet := 0, -1
	for _, e := range src.Log {
		if e.Op == "get" {
			if e.Idx < lastGet {
				return fail("order", fmt.Sprintf("GetFrame(%d) after GetFrame(%d)", e.Idx, lastGet))
			}
			lastGet = e.Idx
		}
	}
	for _, e := range enc.Log {
		if e.Op == "add" {
			adds++
		}
	}
	if adds != n {
		return fail("frame-count", fmt.Sprintf("%d AddFrame calls for %d inputs", adds, n))
	}
	// ---- independence: solo encodes on the same instance and on a new instance
	other := newInstance(c.TS)
	for i := range frames {
		solo := NewPD(info)
		if err := cd.Encode(NewPD(info, frames[i]), solo, c10ParamsFor(cd, c)); err != nil {
			return fail("encode-error", fmt.Sprintf("solo encode of frame %d: %v", i, err))
		}
		if len(solo.Frames) != 1 || !bytes.Equal(solo.Frames[0], enc.Frames[i]) {
			return fail("encode-frame-dependence", fmt.Sprintf("encoded frame %d of the %d-frame call differs from the solo encoding of the same frame (first diff at byte %d)", i, n, firstDiff(solo.Frames[0], enc.Frames[i])))
		}
	}
	// determinism after an unrelated call on the same instance
	{
		// an unrelated image: other extents AND another plane layout (components,
		// container) where the syntax allows, so that any per-object scratch sized or
		// filled by it differs from what the frames under test need
		uw, uh := 7+c.W%5, 5+c.H%7
		uba, ubs, uspp := c.BA, c.BS, c.SPP
		switch c.TS {
		case ".50":
			uspp = 4 - c.SPP
		case ".51":
			if c.BA == 16 {
				uba, ubs, uspp = 8, 8, 3
			} else {
				uspp = 4 - c.SPP
			}
		default:
			uspp = 4 - c.SPP
			if c.BA == 8 {
				uba, ubs = 16, 12
			} else {
				uba, ubs = 8, 8
			}
		}
		uinfo := FrameInfo(uw, uh, uba, ubs, uspp, c.PR, 0)
		us := gen.Content(gen.New(c.Frames[0].CSeed^0x55), "noise", uw, uh, uspp, ubs, 0)
		tmp := NewPD(uinfo)
		_ = cd.Encode(NewPD(uinfo, gen.PackN(us, uba/8)), tmp, c10ParamsFor(cd, c))
		if len(tmp.Frames) == 1 {
			tmp2 := NewPD(uinfo)
			_ = cd.Decode(NewPD(uinfo, tmp.Frames[0]), tmp2, nil)
		}
	}
	// ... and after calls the codec has to reject (a frame cut short behind a good one, a
	// stream cut short): whatever an error path leaves behind must not reach the next call.
	// Their own outcome is judged by C17 / C08, not here.
	func() {
		defer func() { _ = recover() }()
		short := append([]byte(nil), keep[0][:len(keep[0])-1-len(keep[0])/3]...)
		_ = cd.Encode(NewPD(info, append([]byte(nil), keep[0]...), short), NewPD(info), mainP)
		_ = cd.Encode(NewPD(info, short), NewPD(info), mainP)
		if len(enc.Frames[0]) > 8 {
			cut := append([]byte(nil), enc.Frames[0][:len(enc.Frames[0])*2/3]...)
			_ = cd.Decode(NewPD(info, cut), NewPD(info), nil)
		}
	}()
	again := NewPD(info)
	if err := cd.Encode(NewPD(info, frames...), again, mainP); err != nil {
		return fail("encode-error", "repeat: "+err.Error())
	}
	for i := range frames {
		if i >= len(again.Frames) || !bytes.Equal(again.Frames[i], enc.Frames[i]) {
			return fail("encode-nondeterministic", fmt.Sprintf("repeating the identical %d-frame Encode after an unrelated call changed frame %d", n, i))
		}
	}
	if other != nil && c.PKind == "nil" && (c.TS == "rle" || c.TS == ".70" || c.TS == ".80" || c.TS == ".90" || c.TS == ".92" || c.TS == ".201" || c.TS == ".202") {
		// constructors without tunables: a new instance must produce the same bytes
		o := NewPD(info)
		if err := other.Encode(NewPD(info, frames...), o, nil); err != nil {
			return fail("encode-error", "new instance: "+err.Error())
		}
		for i := range frames {
			if i >= len(o.Frames) || !bytes.Equal(o.Frames[i], enc.Frames[i]) {
				return fail("encode-instance-dependence", fmt.Sprintf("a newly constructed codec encodes frame %d differently from the registry instance", i))
			}
		}
	}
	if r := checkSources("encode (solo/repeat)"); r != nil {
		return *r
	}
	// ---- decode
	encKeep := make([][]byte, n)
	encC := make([][]byte, n)
	for i := range enc.Frames {
		encC[i] = canaryFrame(enc.Frames[i])
		encKeep[i] = append([]byte(nil), enc.Frames[i]...)
	}
	dsrc := NewPD(info, encC...)
	dec := NewPD(info)
	if err := cd.Decode(dsrc, dec, nil); err != nil {
		return fail("decode-error", err.Error())
	}
	if len(dec.Frames) != n {
		return fail("frame-count", fmt.Sprintf("Decode produced %d frames for %d inputs", len(dec.Frames), n))
	}
	for i := range encC {
		if !bytes.Equal(encC[i], encKeep[i]) || !canaryIntact(encC[i]) {
			return fail("source-modified", fmt.Sprintf("decode: encoded input frame %d (or its spare capacity) was modified", i))
		}
	}
	want := c.expectedLen()
	for i := range dec.Frames {
		if len(dec.Frames[i]) != want {
			return fail("decoded-length", fmt.Sprintf("decoded frame %d has %d bytes, expected %d (= %dx%dx%dx%d)", i, len(dec.Frames[i]), want, c.H, c.W, c.SPP, (c.BA+7)/8))
		}
	}
	for i := range encC {
		solo := NewPD(info)
		if err := cd.Decode(NewPD(info, encKeep[i]), solo, nil); err != nil {
			return fail("decode-error", fmt.Sprintf("solo decode of frame %d: %v", i, err))
		}
		if len(solo.Frames) != 1 || !bytes.Equal(solo.Frames[0], dec.Frames[i]) {
			return fail("decode-frame-dependence", fmt.Sprintf("decoded frame %d of the %d-frame call differs from the solo decoding of the same frame", i, n))
		}
	}
	lossless := c10Lossless[c.TS]
	if lossless {
		for i := range frames {
			w := keep[i]
			if c.TS == "rle" && len(w)%2 == 1 {
				w = append(append([]byte(nil), w...), 0)
			}
			if j := firstDiff(dec.Frames[i], w); j >= 0 {
				return fail("lossless-mismatch", fmt.Sprintf("decoded frame %d differs from its source at byte %d", i, j))
			}
		}
		res.AddFeat("lossless_frames_compared", int64(n))
	}
	res.AddFeat("frames", int64(n))
	res.AddFeat("getframe_events", int64(len(src.Log)))
	res.AddFeat("addframe_events", int64(adds))
	return res
}

// ---- jpeg2000.Encoder object histories

func c10EncParams(c *c10Case) *jpeg2000.EncodeParams {
	p := jpeg2000.DefaultEncodeParams(c.W, c.H, c.SPP, c.BS, false)
	p.NumLevels = 2
	switch c.EncKind {
	case "reversible":
	case "irreversible":
		p.Lossless = false
	case "rev-mct":
		p.EnableMCT = true
	case "irr-mct":
		p.Lossless, p.EnableMCT = false, true
	case "layers":
		p.NumLayers = 3
	case "rate":
		p.NumLayers, p.TargetRatio, p.UsePCRDOpt, p.AppendLosslessLayer = 3, 4, true, true
	case "roi":
		p.ROI = &jpeg2000.ROIParams{X0: 1, Y0: 1, Width: c.W / 2, Height: c.H / 2, Shift: 3}
	case "ht":
		p.HTJ2KMode = true
		p.ProgressionOrder = 2
		p.BlockEncoderFactory = func(w, h int) jpeg2000.BlockEncoder { return htj2k.NewHTEncoder(w, h) }
	case "custommct":
		id := [][]float64{{1, 0, 0}, {0, 1, 0}, {0, 0, 1}}
		p.MCTMatrix, p.InverseMCTMatrix = id, id
	case "tiles":
		p.TileWidth, p.TileHeight = 1+c.W/2, 1+c.H/3
	case "irr-q":
		p.Lossless, p.Quality = false, 35
	}
	return p
}

func c10EncObj(c *c10Case) mon.Result {
	res := mon.Hold()
	res.Cell("enckind=" + c.EncKind)
	shared := jpeg2000.NewEncoder(c10EncParams(c))
	var first []byte
	for i, f := range c.Frames {
		s := gen.Content(gen.New(f.CSeed), f.Class, c.W, c.H, c.SPP, c.BS, 2)
		px := gen.Pack(s, c.BS)
		keep := append([]byte(nil), px...)
		got, err1 := shared.Encode(px)
		want, err2 := jpeg2000.NewEncoder(c10EncParams(c)).Encode(px)
		if !bytes.Equal(px, keep) {
			return mon.Violation("source-modified", fmt.Sprintf("Encoder.Encode modified frame %d", i))
		}
		if (err1 == nil) != (err2 == nil) || (err1 != nil && err1.Error() != err2.Error()) {
			return mon.Violation("encoder-history-error", fmt.Sprintf("call %d on the reused Encoder: err=%v, fresh Encoder: err=%v", i, err1, err2))
		}
		if !bytes.Equal(got, want) {
			return mon.Violation("encoder-history-dependence", fmt.Sprintf("call %d (%s) on a reused %s Encoder differs from a fresh Encoder on the same frame (first diff at byte %d, len %d vs %d)", i, f.Class, c.EncKind, firstDiff(got, want), len(got), len(want)))
		}
		if i == 0 {
			first = append([]byte(nil), got...)
		}
		if i == len(c.Frames)-1 && !bytes.Equal(got, first) {
			return mon.Violation("encoder-nondeterministic", "the first frame encoded again at the end of the history gives different bytes")
		}
	}
	res.AddFeat("encoder_calls", int64(len(c.Frames)))
	return res
}

// ---- jpeg2000.Decoder object histories

func c10MakeStream(s c10Stream) ([]byte, error) {
	p := jpeg2000.DefaultEncodeParams(s.W, s.H, s.C, s.P, false)
	p.NumLevels = 2
	switch s.Kind {
	case "plain":
	case "rct":
		p.EnableMCT = true
	case "nomct":
		p.EnableMCT = false
	case "custommct":
		m := [][]float64{{1, 0, 0}, {0, 1, 0}, {0, 0, 1}}
		p.MCTMatrix, p.InverseMCTMatrix = m, m
		p.MCTOffsets = []int32{3, -2, 1}
	case "binding":
		p.MCTBindings = []jpeg2000.MCTBindingParams{{ComponentIDs: []uint16{0, 1}, Matrix: [][]float64{{1, 0}, {1, 1}}, Inverse: [][]float64{{1, 0}, {-1, 1}}, ElementType: 1, Offsets: []int32{2, 5}}}
	case "roi":
		p.ROI = &jpeg2000.ROIParams{X0: 0, Y0: 0, Width: 1 + s.W/2, Height: 1 + s.H/2, Shift: 4}
	case "lossy":
		p.Lossless, p.EnableMCT = false, false
	case "lossy-ict":
		p.Lossless, p.EnableMCT = false, true
	case "layers":
		p.NumLayers = 3
	}
	px := gen.Pack(gen.Content(gen.New(s.CSeed), "noise", s.W, s.H, s.C, s.P, 0), s.P)
	return jpeg2000.NewEncoder(p).Encode(px)
}

type c10Obs struct {
	err        string
	w, h, c, p int
	signed     bool
	px         []byte
}

func observeDecode(d *jpeg2000.Decoder, cs []byte) (o c10Obs) {
	defer func() {
		if r := recover(); r != nil {
			o.err = fmt.Sprint("panic: ", r)
		}
	}()
	if err := d.Decode(cs); err != nil {
		o.err = err.Error()
		return
	}
	o.w, o.h, o.c, o.p, o.signed = d.Width(), d.Height(), d.Components(), d.BitDepth(), d.IsSigned()
	o.px = append([]byte(nil), d.GetPixelData()...)
	return
}

func c10DecObj(c *c10Case) mon.Result {
	res := mon.Hold()
	shared := jpeg2000.NewDecoder()
	hist := ""
	for i, s := range c.Streams {
		cs, err := c10MakeStream(s)
		if err != nil {
			return mon.Result{V: mon.Inconclusive, Msg: fmt.Sprintf("could not build stream %d (%s): %v", i, s.Kind, err)}
		}
		res.Cell("stream=" + s.Kind)
		if i > 0 {
			res.Cell("pair=" + c.Streams[i-1].Kind + ">" + s.Kind)
		}
		keep := append([]byte(nil), cs...)
		got := observeDecode(shared, cs)
		want := observeDecode(jpeg2000.NewDecoder(), cs)
		if !bytes.Equal(cs, keep) {
			return mon.Violation("source-modified", fmt.Sprintf("Decoder.Decode modified stream %d", i))
		}
		hist += s.Kind + " "
		if got.err != want.err || got.w != want.w || got.h != want.h || got.c != want.c || got.p != want.p || got.signed != want.signed || !bytes.Equal(got.px, want.px) {
			r := mon.Violation("decoder-history-dependence", fmt.Sprintf("call %d (%s %dx%dx%d) on a reused Decoder after [%s] differs from a fresh Decoder: err %q vs %q, geometry %dx%dx%d/%d vs %dx%dx%d/%d, first pixel diff %d",
				i, s.Kind, s.W, s.H, s.C, hist, got.err, want.err, got.w, got.h, got.c, got.p, want.w, want.h, want.c, want.p, firstDiff(got.px, want.px)))
			prev := ""
			if i > 0 {
				prev = c.Streams[i-1].Kind
			}
			r = r.With("leakTo", s.Kind).With("leakFrom", prev).With("history", hist)
			r.Cells = res.Cells
			return r
		}
	}
	res.AddFeat("decoder_calls", int64(len(c.Streams)))
	return res
}
