package mon

import (
	"bufio"
	"encoding/json"
	"fmt"
	"os"
	"strings"
)

// Cond is one conjunct of a known-finding predicate over the flattened case
// descriptor (descriptor JSON fields plus the oracle's Derived fields).
type Cond struct {
	F  string `json:"f"`
	Op string `json:"op"` // == != < <= > >= in odd even prefix contains
	V  any    `json:"v,omitempty"`
}

type Finding struct {
	Status   string `json:"status"` // known | fixed
	Property string `json:"property"`
	Name     string `json:"name,omitempty"`
	Class    string `json:"class,omitempty"` // failure class, exact or prefix with trailing *
	When     []Cond `json:"when,omitempty"`
	What     string `json:"what"`
	Where    string `json:"where,omitempty"`
	Witness  string `json:"witness,omitempty"`
	Commit   string `json:"commit,omitempty"`
}

func LoadFindings(path, prop string) ([]Finding, error) {
	f, err := os.Open(path)
	if err != nil {
		if os.IsNotExist(err) {
			return nil, nil
		}
		return nil, err
	}
	defer f.Close()
	var out []Finding
	sc := bufio.NewScanner(f)
	sc.Buffer(make([]byte, 1<<20), 1<<24)
	ln := 0
	for sc.Scan() {
		ln++
		line := strings.TrimSpace(sc.Text())
		if line == "" || strings.HasPrefix(line, "#") {
			continue
		}
		var fd Finding
		if err := json.Unmarshal([]byte(line), &fd); err != nil {
			return nil, fmt.Errorf("known_findings line %d: %v", ln, err)
		}
		if fd.Property == prop && fd.Status == "known" {
			out = append(out, fd)
		}
	}
	return out, sc.Err()
}

func num(v any) (float64, bool) {
	switch x := v.(type) {
	case float64:
		return x, true
	case int:
		return float64(x), true
	case int64:
		return float64(x), true
	case uint64:
		return float64(x), true
	case bool:
		if x {
			return 1, true
		}
		return 0, true
	case json.Number:
		f, err := x.Float64()
		return f, err == nil
	}
	return 0, false
}

func (c Cond) eval(flat map[string]any) bool {
	got, ok := flat[c.F]
	if !ok {
		return false
	}
	switch c.Op {
	case "odd", "even":
		g, ok := num(got)
		if !ok {
			return false
		}
		return (int64(g)&1 == 1) == (c.Op == "odd")
	case "in":
		lst, ok := c.V.([]any)
		if !ok {
			return false
		}
		for _, e := range lst {
			if (Cond{F: c.F, Op: "==", V: e}).eval(flat) {
				return true
			}
		}
		return false
	case "prefix":
		gs, ok1 := got.(string)
		vs, ok2 := c.V.(string)
		return ok1 && ok2 && strings.HasPrefix(gs, vs)
	case "contains":
		gs, ok1 := got.(string)
		vs, ok2 := c.V.(string)
		return ok1 && ok2 && strings.Contains(gs, vs)
	}
	if gs, ok := got.(string); ok {
		vs, ok := c.V.(string)
		if !ok {
			return false
		}
		switch c.Op {
		case "==":
			return gs == vs
		case "!=":
			return gs != vs
		}
		return false
	}
	g, ok1 := num(got)
	v, ok2 := num(c.V)
	if !ok1 || !ok2 {
		return false
	}
	switch c.Op {
	case "==":
		return g == v
	case "!=":
		return g != v
	case "<":
		return g < v
	case "<=":
		return g <= v
	case ">":
		return g > v
	case ">=":
		return g >= v
	}
	return false
}

func (f *Finding) Matches(class string, flat map[string]any) bool {
	if f.Class != "" {
		if strings.HasSuffix(f.Class, "*") {
			if !strings.HasPrefix(class, strings.TrimSuffix(f.Class, "*")) {
				return false
			}
		} else if f.Class != class {
			return false
		}
	}
	for _, c := range f.When {
		if !c.eval(flat) {
			return false
		}
	}
	return true
}

// Flatten turns a descriptor into a flat field map (nested objects are joined
// with '.'), then overlays the oracle's derived fields.
func Flatten(desc any, derived map[string]any) map[string]any {
	out := map[string]any{}
	b, err := json.Marshal(desc)
	if err == nil {
		var m map[string]any
		if json.Unmarshal(b, &m) == nil {
			flattenInto(out, "", m)
		}
	}
	for k, v := range derived {
		out[k] = v
	}
	return out
}

func flattenInto(out map[string]any, prefix string, m map[string]any) {
	for k, v := range m {
		if sub, ok := v.(map[string]any); ok {
			flattenInto(out, prefix+k+".", sub)
			continue
		}
		out[prefix+k] = v
	}
}
