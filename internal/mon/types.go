// Package mon is the monitoring engine: it executes a property's case list on
// the real library code, collects per-case verdicts from the property's oracle,
// matches violations against known_findings.jsonl, writes replays and evidence.
package mon

import "encoding/json"

type Verdict int

const (
	Held Verdict = iota
	Violated
	Inconclusive
	OutOfDomain
)

func (v Verdict) String() string {
	return [...]string{"held", "violated", "inconclusive", "out-of-domain"}[v]
}

// Result is what an oracle reports for one executed case.
type Result struct {
	V          Verdict
	Class      string           // failure class for Violated (stable, digit-free where possible)
	Msg        string           // human detail (first offending sample etc.)
	NonTrivial bool             // passes the property's non-triviality rule
	Key        string           // distinctness key; "" = hash of the descriptor
	Feat       map[string]int64 // numeric observations summed into the evidence
	Cells      []string         // categorical cells visited (histogram in the evidence)
	Derived    map[string]any   // derived descriptor fields usable in known-finding predicates
	Stack      string
	// Sub > 0: the case is a batch that executed Sub sub-cases which are
	// pairwise distinct by construction (complete enumerations).  They are
	// counted as evaluations and, if NonTrivial, as distinct non-trivial cases.
	Sub int
	// More carries further, independent violations found by the same batch case
	// (each is matched against the known findings on its own).
	More []Result
	// Replay, when set, is the descriptor of a single-input case that reproduces
	// this result on its own (batches set it so that a replay does not re-run the batch).
	Replay json.RawMessage
}

func Hold() Result { return Result{V: Held, NonTrivial: true} }

func Violation(class, msg string) Result {
	return Result{V: Violated, Class: class, Msg: msg, NonTrivial: true}
}

func (r Result) With(k string, v any) Result {
	if r.Derived == nil {
		r.Derived = map[string]any{}
	}
	r.Derived[k] = v
	return r
}

func (r *Result) AddFeat(k string, n int64) {
	if r.Feat == nil {
		r.Feat = map[string]int64{}
	}
	r.Feat[k] += n
}

func (r *Result) Cell(c string) { r.Cells = append(r.Cells, c) }

// Property is implemented once per Cxx.
type Property interface {
	ID() string
	// Rule states how cases are generated and what makes one distinct and non-trivial.
	Rule() string
	// Build returns the full, fixed-length case list of a tier.  Elements are
	// JSON-marshalable descriptors (pointers to structs).
	Build(tier string, seed uint64) []any
	// Exec runs one case against the library and judges it.
	Exec(desc any) Result
	// Decode turns a stored descriptor back into what Exec expects.
	Decode(raw json.RawMessage) (any, error)
}

// Optional interfaces.

// Isolated properties run their cases in resource-limited child processes.
type Isolated interface{ Isolated() bool }

// Finisher lets a property add run-level keys to the evidence and run-level
// verdicts (e.g. "a rare path was never driven" is reported, not judged).
type Finisher interface {
	Finish(observed map[string]int64, ev map[string]any)
}

// Assumer lists the trusted base for the evidence file.
type Assumer interface{ Assumptions() []string }

// Prelude runs once before the cases (reference self-validation).  An error
// makes the whole run inconclusive-with-failure (exit 2), never a VIOLATION.
type Prelude interface{ Prelude() error }

// Deriver computes descriptor-derived fields without executing the library, so
// that known-finding predicates can be evaluated for crashes as well.
type Deriver interface {
	Derive(desc any) map[string]any
}

// Confirmer marks verdicts that depend on machine load; the engine re-executes
// their single-input replay alone before counting them.
type Confirmer interface {
	NeedsConfirm(r Result) bool
}
