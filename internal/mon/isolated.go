package mon

import (
	"bufio"
	"encoding/json"
	"fmt"
	"os"
	"os/exec"
	"path/filepath"
	"runtime"
	"runtime/debug"
	"runtime/pprof"
	"strconv"
	"strings"
	"sync"
	"sync/atomic"
	"syscall"
	"time"
)

// Child-process isolation (DESIGN 2.3).  The driver writes the case list to a
// file and spawns `vcheck worker` children, one per shard.  A child logs
// "B <idx>" before and "E <idx> <result>" after every case with completed
// write(2) calls, so the death of the process is attributable to one case.

const (
	ChildAS        = 3 << 30 // RLIMIT_AS
	ChildStack     = 64 << 20
	CaseWallLimit  = 90 * time.Second // watchdog: inconclusive/hang handling is the property's business
	exitWatchdog   = 97
	resultLinesMax = 1 << 26
)

type wireResult struct {
	V          Verdict          `json:"v"`
	Class      string           `json:"c,omitempty"`
	Msg        string           `json:"m,omitempty"`
	NonTrivial bool             `json:"n,omitempty"`
	Key        string           `json:"k,omitempty"`
	Feat       map[string]int64 `json:"f,omitempty"`
	Cells      []string         `json:"l,omitempty"`
	Derived    map[string]any   `json:"d,omitempty"`
	Stack      string           `json:"s,omitempty"`
	Sub        int              `json:"u,omitempty"`
	More       []wireResult     `json:"x,omitempty"`
	Replay     json.RawMessage  `json:"r,omitempty"`
}

func toWire(r Result) wireResult {
	w := wireResult{r.V, r.Class, r.Msg, r.NonTrivial, r.Key, r.Feat, r.Cells, r.Derived, r.Stack, r.Sub, nil, r.Replay}
	for _, m := range r.More {
		w.More = append(w.More, toWire(m))
	}
	return w
}
func fromWire(w wireResult) Result {
	r := Result{V: w.V, Class: w.Class, Msg: w.Msg, NonTrivial: w.NonTrivial, Key: w.Key, Feat: w.Feat, Cells: w.Cells, Derived: w.Derived, Stack: w.Stack, Sub: w.Sub, Replay: w.Replay}
	for _, m := range w.More {
		r.More = append(r.More, fromWire(m))
	}
	return r
}

// Self is the path of the running vcheck binary (set by the driver).
var Self string

// DeathClassifier lets an isolated property turn a child death into a verdict
// (C08: oom is not its business; C09: oom is a violation).
type DeathClassifier interface {
	// ClassifyDeath receives the descriptor, the kind ("oom", "stackoverflow",
	// "fatal", "hang", "killed") the runtime message and the top repo frame.
	// cur is what the child recorded with RecordInput before the fatal call (may be empty).
	ClassifyDeath(desc any, kind, msg, frame string, cur []byte) Result
}

func runIsolated(p Property, cases []any, opt Options) []caseOut {
	outs := make([]caseOut, len(cases))
	for i := range outs {
		outs[i] = caseOut{idx: i, desc: cases[i], res: Result{V: Inconclusive, Msg: "not executed"}}
	}
	scratch := filepath.Join(Root, ".scratch", fmt.Sprintf("%s-%d", p.ID(), os.Getpid()))
	if err := os.MkdirAll(scratch, 0o755); err != nil {
		panic(err)
	}
	defer os.RemoveAll(scratch)
	casefile := filepath.Join(scratch, "cases.jsonl")
	f, err := os.Create(casefile)
	if err != nil {
		panic(err)
	}
	bw := bufio.NewWriterSize(f, 1<<20)
	for _, c := range cases {
		b, err := json.Marshal(c)
		if err != nil {
			panic(err)
		}
		bw.Write(b)
		bw.WriteByte('\n')
	}
	bw.Flush()
	f.Close()

	nsh := opt.Workers
	if nsh > len(cases) {
		nsh = len(cases)
	}
	if nsh < 1 {
		nsh = 1
	}
	var mu sync.Mutex
	var wg sync.WaitGroup
	var deaths int64
	for sh := 0; sh < nsh; sh++ {
		wg.Add(1)
		go func(sh int) {
			defer wg.Done()
			pos := 0 // position within the shard (case index = sh + pos*nsh)
			round := 0
			for sh+pos*nsh < len(cases) {
				log := filepath.Join(scratch, fmt.Sprintf("log.%d.%d", sh, round))
				round++
				cmd := exec.Command(Self, "worker", p.ID(), casefile, strconv.Itoa(sh), strconv.Itoa(nsh), strconv.Itoa(pos), log)
				cur := filepath.Join(scratch, fmt.Sprintf("cur.%d", sh))
				os.Remove(cur)
				cmd.Env = append(os.Environ(), "VERIF_TIER="+opt.Tier, "VERIF_SEED="+strconv.FormatUint(opt.Seed, 10), "VERIF_ROOT="+Root, "VERIF_CURFILE="+cur)
				errf, _ := os.Create(log + ".err")
				cmd.Stderr = errf
				cmd.Stdout = errf
				runErr := cmd.Run()
				errf.Close()
				done, open := parseChildLog(log, func(idx int, r Result) {
					mu.Lock()
					outs[idx].res = r
					mu.Unlock()
				})
				_ = done
				if open < 0 && runErr == nil {
					break // shard finished
				}
				if open < 0 {
					// died between cases (should not happen); skip nothing, but avoid a loop
					fmt.Fprintf(os.Stderr, "[%s] child shard %d died outside a case: %v\n", p.ID(), sh, runErr)
					tail := tailFile(log+".err", 2000)
					fmt.Fprintln(os.Stderr, tail)
					// move on past the last finished case
					pos = (lastDone(log, sh, nsh)) + 1
					if pos <= 0 {
						break
					}
					continue
				}
				atomic.AddInt64(&deaths, 1)
				kind, msg, frame, dump := classifyDeath(log+".err", runErr)
				var r Result
				if dc, ok := p.(DeathClassifier); ok {
					curBytes := ReadRecordedInput(filepath.Join(scratch, fmt.Sprintf("cur.%d", sh)))
					r = dc.ClassifyDeath(cases[open], kind, msg, frame, curBytes)
				} else {
					r = Result{V: Violated, Class: "death:" + kind + "@" + frame, Msg: msg, NonTrivial: true}
				}
				if r.Stack == "" {
					r.Stack = dump
				}
				mu.Lock()
				outs[open].res = r
				mu.Unlock()
				pos = (open-sh)/nsh + 1
			}
		}(sh)
	}
	wg.Wait()
	if deaths > 0 {
		fmt.Fprintf(os.Stderr, "[%s] %d child deaths attributed to single cases\n", p.ID(), deaths)
	}
	return outs
}

func lastDone(log string, sh, nsh int) int {
	last := -1
	parseChildLog(log, func(idx int, r Result) {
		if p := (idx - sh) / nsh; p > last {
			last = p
		}
	})
	return last
}

// parseChildLog feeds finished results to cb and returns the index of a case
// that was begun but not ended (-1 if none).
func parseChildLog(path string, cb func(int, Result)) (done int, open int) {
	open = -1
	f, err := os.Open(path)
	if err != nil {
		return 0, -1
	}
	defer f.Close()
	sc := bufio.NewScanner(f)
	sc.Buffer(make([]byte, 1<<20), resultLinesMax)
	for sc.Scan() {
		ln := sc.Text()
		if strings.HasPrefix(ln, "B ") {
			open, _ = strconv.Atoi(ln[2:])
		} else if strings.HasPrefix(ln, "E ") {
			rest := ln[2:]
			sp := strings.IndexByte(rest, ' ')
			if sp < 0 {
				continue
			}
			idx, _ := strconv.Atoi(rest[:sp])
			var w wireResult
			if json.Unmarshal([]byte(rest[sp+1:]), &w) == nil {
				cb(idx, fromWire(w))
				done++
			}
			if idx == open {
				open = -1
			}
		}
	}
	return done, open
}

func tailFile(path string, n int) string {
	b, err := os.ReadFile(path)
	if err != nil {
		return ""
	}
	if len(b) > n {
		b = b[len(b)-n:]
	}
	return string(b)
}

func classifyDeath(errPath string, runErr error) (kind, msg, frame, dump string) {
	b, _ := os.ReadFile(errPath)
	s := string(b)
	if len(s) > 200000 {
		s = s[:200000]
	}
	dump = s
	if len(dump) > 6000 {
		dump = dump[:6000]
	}
	kind = "killed"
	if ee, ok := runErr.(*exec.ExitError); ok {
		if ee.ExitCode() == exitWatchdog {
			kind = "hang"
		}
	}
	for _, ln := range strings.Split(s, "\n") {
		if strings.HasPrefix(ln, "fatal error: ") || strings.HasPrefix(ln, "runtime: ") && msg == "" {
			if msg == "" || strings.HasPrefix(ln, "fatal error: ") {
				msg = strings.TrimSpace(ln)
			}
			if strings.HasPrefix(ln, "fatal error: ") {
				break
			}
		}
	}
	switch {
	case kind == "hang":
	case strings.Contains(msg, "out of memory") || strings.Contains(s, "cannot allocate memory") || strings.Contains(msg, "too many address space") || strings.Contains(s, "out of memory"):
		kind = "oom"
	case strings.Contains(s, "stack overflow") || strings.Contains(s, "goroutine stack exceeds"):
		kind = "stackoverflow"
	case msg != "":
		kind = "fatal"
	}
	frame = frameOfCaseGoroutine(s)
	return
}

// frameOfCaseGoroutine finds the goroutine that was running the case (its
// stack contains mon.SafeExec) and returns its first library frame.
func frameOfCaseGoroutine(dump string) string {
	blocks := strings.Split(dump, "\n\n")
	for _, b := range blocks {
		if strings.Contains(b, "mon.SafeExec") {
			if f := TopRepoFrame(b); f != "?" {
				return f
			}
		}
	}
	return TopRepoFrame(dump)
}

// caseStart is the wall-clock start of the call being watched (unix nanos, 0 =
// idle).  Batch cases call Beat() before every library call so that the
// watchdog measures one call, not the whole batch.
var caseStart atomic.Int64

// Beat restarts the watchdog interval.
func Beat() {
	if caseStart.Load() != 0 {
		caseStart.Store(time.Now().UnixNano())
	}
}

// CurFile is where an isolated child records the input it is about to feed to
// the library (set from VERIF_CURFILE); the parent reads it when the child dies.
var CurFile = os.Getenv("VERIF_CURFILE")

// RecordInput writes the current input (one completed pwrite) before a risky
// call: 8-byte little-endian length, then "meta\n" + bytes.
var (
	curFH  *os.File
	curBuf []byte
)

func RecordInput(meta string, b []byte) {
	if CurFile == "" {
		return
	}
	if curFH == nil {
		f, err := os.OpenFile(CurFile, os.O_CREATE|os.O_WRONLY, 0o644)
		if err != nil {
			return
		}
		curFH = f
	}
	n := len(meta) + 1 + len(b)
	curBuf = curBuf[:0]
	for i := 0; i < 8; i++ {
		curBuf = append(curBuf, byte(uint64(n)>>(8*uint(i))))
	}
	curBuf = append(curBuf, meta...)
	curBuf = append(curBuf, '\n')
	curBuf = append(curBuf, b...)
	curFH.WriteAt(curBuf, 0)
}

// ReadRecordedInput returns what RecordInput stored last.
func ReadRecordedInput(path string) []byte {
	raw, err := os.ReadFile(path)
	if err != nil || len(raw) < 8 {
		return nil
	}
	n := 0
	for i := 0; i < 8; i++ {
		n |= int(raw[i]) << (8 * uint(i))
	}
	if n < 0 || 8+n > len(raw) {
		return nil
	}
	return raw[8 : 8+n]
}

// WorkerMain is the body of `vcheck worker`.
func WorkerMain(p Property, casefile string, sh, nsh, startPos int, logPath string) int {
	lim := syscall.Rlimit{Cur: ChildAS, Max: ChildAS}
	_ = syscall.Setrlimit(syscall.RLIMIT_AS, &lim)
	debug.SetMaxStack(ChildStack)
	debug.SetGCPercent(50)
	if pre, ok := p.(Prelude); ok {
		_ = pre // preludes are validated by the driver only
	}
	f, err := os.Open(casefile)
	if err != nil {
		fmt.Fprintln(os.Stderr, err)
		return 2
	}
	defer f.Close()
	lg, err := os.OpenFile(logPath, os.O_CREATE|os.O_WRONLY|os.O_APPEND, 0o644)
	if err != nil {
		fmt.Fprintln(os.Stderr, err)
		return 2
	}
	defer lg.Close()
	go func() {
		for {
			time.Sleep(500 * time.Millisecond)
			st := caseStart.Load()
			if st != 0 && time.Since(time.Unix(0, st)) > CaseWallLimit {
				fmt.Fprintf(os.Stderr, "fatal error: verif watchdog: case exceeded %v wall\n\n", CaseWallLimit)
				pprof.Lookup("goroutine").WriteTo(os.Stderr, 2)
				os.Exit(exitWatchdog)
			}
		}
	}()
	sc := bufio.NewScanner(f)
	sc.Buffer(make([]byte, 1<<20), resultLinesMax)
	idx := -1
	for sc.Scan() {
		idx++
		if idx%nsh != sh || (idx-sh)/nsh < startPos {
			continue
		}
		d, err := p.Decode(json.RawMessage(append([]byte(nil), sc.Bytes()...)))
		if err != nil {
			fmt.Fprintf(os.Stderr, "decode case %d: %v\n", idx, err)
			return 2
		}
		fmt.Fprintf(lg, "B %d\n", idx)
		caseStart.Store(time.Now().UnixNano())
		r := SafeExec(p, d)
		caseStart.Store(0)
		b, _ := json.Marshal(toWire(r))
		lg.Write(append(append([]byte("E "+strconv.Itoa(idx)+" "), b...), '\n'))
		if idx%64 == 0 {
			runtime.GC()
		}
	}
	return 0
}
