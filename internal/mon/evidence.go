package mon

import (
	"encoding/json"
	"os"
	"path/filepath"
	"sort"

	"verif/internal/gen"
)

type hashSet struct{ m map[uint64]struct{} }

func (h *hashSet) Add(s string) {
	if h.m == nil {
		h.m = map[uint64]struct{}{}
	}
	h.m[gen.HashStr(s)] = struct{}{}
}
func (h *hashSet) Len() int { return len(h.m) }

type replayRef struct{ class, path string }

type evidence struct {
	id           string
	opt          Options
	evals        int
	nontrivial   hashSet
	byVerdict    map[Verdict]int
	feat         map[string]int64
	cells        map[string]int
	samples      []any
	extra        map[string]any
	replays      []replayRef
	violations   int
	wall         float64
	n            int
	enumDistinct int
}

func newEvidence(id string, opt Options) *evidence {
	return &evidence{id: id, opt: opt, byVerdict: map[Verdict]int{}, feat: map[string]int64{}, cells: map[string]int{}, extra: map[string]any{}}
}

func (e *evidence) add(o caseOut) {
	e.byVerdict[o.res.V]++
	if o.res.Sub > 0 {
		e.evals += o.res.Sub
		if o.res.NonTrivial {
			e.enumDistinct += o.res.Sub
		}
	} else {
		e.evals++
	}
	if o.res.Sub == 0 && o.res.NonTrivial && (o.res.V == Held || o.res.V == Violated) {
		k := o.res.Key
		if k == "" {
			b, _ := json.Marshal(o.desc)
			k = string(b)
		}
		e.nontrivial.Add(k)
	}
	for k, v := range o.res.Feat {
		e.feat[k] += v
	}
	for _, c := range o.res.Cells {
		e.cells[c]++
	}
	// samples: first two, then a deterministic sparse selection, capped
	if e.n < 2 || (len(e.samples) < 8 && gen.Mix(uint64(e.n), 99)%997 == 0) {
		e.samples = append(e.samples, map[string]any{"case": o.desc, "verdict": o.res.V.String()})
	}
	e.n++
}

func (e *evidence) distinct() int { return e.nontrivial.Len() + e.enumDistinct }

func (e *evidence) write(p Property) error {
	cov := map[string]any{
		"evaluations":         e.evals,
		"distinct_nontrivial": e.distinct(),
		"rule":                p.Rule(),
		"samples":             e.samples,
		"verdicts": map[string]int{
			"held": e.byVerdict[Held], "violated": e.byVerdict[Violated],
			"inconclusive": e.byVerdict[Inconclusive], "out_of_domain": e.byVerdict[OutOfDomain],
		},
		"observed": e.feat,
	}
	// cells histogram: keep it readable - group "dim=value"
	if len(e.cells) > 0 {
		keys := make([]string, 0, len(e.cells))
		for k := range e.cells {
			keys = append(keys, k)
		}
		sort.Strings(keys)
		if len(keys) > 4000 {
			cov["cells_visited_count"] = len(keys)
		} else {
			cov["cells_visited"] = e.cells
		}
	}
	for k, v := range e.extra {
		cov[k] = v
	}
	var assume []string
	if a, ok := p.(Assumer); ok {
		assume = a.Assumptions()
	}
	doc := map[string]any{
		"property_id": e.id,
		"tier":        e.opt.Tier,
		"seed":        int64(e.opt.Seed),
		"level":       "exploration",
		"coverage":    cov,
		"assumptions": assume,
		"wall_s":      e.wall,
		"violations":  e.violations,
	}
	b, err := json.MarshalIndent(doc, "", " ")
	if err != nil {
		return err
	}
	dir := filepath.Join(OutRoot(), "evidence")
	if err := os.MkdirAll(dir, 0o755); err != nil {
		return err
	}
	return os.WriteFile(filepath.Join(dir, e.id+".json"), b, 0o644)
}
