package mon

import (
	"crypto/sha256"
	"encoding/hex"
	"encoding/json"
	"fmt"
	"os"
	"os/exec"
	"path/filepath"
	"runtime"
	"runtime/debug"
	"sort"
	"strconv"
	"strings"
	"sync"
	"sync/atomic"
	"time"

	"github.com/cocosip/go-dicom-codecs/verifhook"

	"verif/internal/gen"
)

// Root is the /verif directory (set by the driver).
var Root = "/verif"

// OutRoot returns where evidence and replays are written (VERIF_OUT, default Root).
func OutRoot() string {
	if o := os.Getenv("VERIF_OUT"); o != "" {
		return o
	}
	return Root
}

type caseOut struct {
	idx  int
	desc any
	res  Result
}

// SafeExec runs one case under recover(); a Go panic inside the library is a
// violation only for properties that say so (the panic class is reported and
// the property decides through its class name "panic:*").
func SafeExec(p Property, desc any) (res Result) {
	defer func() {
		if r := recover(); r != nil {
			st := string(debug.Stack())
			res = Result{V: Violated, Class: "panic:" + PanicSig(fmt.Sprint(r), st), Msg: fmt.Sprint(r), NonTrivial: true, Stack: st}
		}
	}()
	return p.Exec(desc)
}

// PanicSig normalises a panic into "<message without digits>@<first repo function>".
func PanicSig(msg, stack string) string {
	var b strings.Builder
	lastHash := false
	for _, c := range msg {
		if c >= '0' && c <= '9' {
			if !lastHash {
				b.WriteByte('#')
				lastHash = true
			}
			continue
		}
		lastHash = false
		b.WriteRune(c)
	}
	m := b.String()
	if len(m) > 120 {
		m = m[:120]
	}
	return m + "@" + TopRepoFrame(stack)
}

// TopRepoFrame returns the function name of the first stack frame inside the
// library module (function, not line, so unrelated edits do not rename it).
func TopRepoFrame(stack string) string {
	const mod = "github.com/cocosip/go-dicom-codecs/"
	for _, ln := range strings.Split(stack, "\n") {
		ln = strings.TrimSpace(ln)
		if strings.HasPrefix(ln, mod) {
			fn := strings.TrimPrefix(ln, mod)
			if i := strings.LastIndex(fn, "("); i > 0 {
				fn = fn[:i]
			}
			return fn
		}
	}
	return "?"
}

type Options struct {
	Tier    string
	Seed    uint64
	Workers int
	// MaxReplays bounds the number of replay files written per run.
	MaxReplays int
}

type knownHit struct {
	f     *Finding
	count int
	first string
}

// Run executes the property and returns the process exit code.
func Run(p Property, opt Options) int {
	start := time.Now()
	id := p.ID()
	if opt.Workers <= 0 {
		opt.Workers = runtime.NumCPU()
	}
	if opt.MaxReplays <= 0 {
		opt.MaxReplays = 20
	}
	if mw, ok := p.(interface{ MaxWorkers() int }); ok && mw.MaxWorkers() < opt.Workers {
		opt.Workers = mw.MaxWorkers()
	}
	if pre, ok := p.(Prelude); ok {
		if err := pre.Prelude(); err != nil {
			fmt.Printf("HARNESS-ERROR property=%s prelude (reference self-validation) failed: %v\n", id, err)
			return 2
		}
	}
	findings, err := LoadFindings(filepath.Join(Root, "known_findings.jsonl"), id)
	if err != nil {
		fmt.Printf("HARNESS-ERROR property=%s %v\n", id, err)
		return 2
	}
	cases := p.Build(opt.Tier, opt.Seed)
	// witnesses of known findings are part of every run's fixed case list
	nw := 0
	for i := range findings {
		if findings[i].Witness == "" {
			continue
		}
		rp, err := LoadReplay(filepath.Join(Root, findings[i].Witness))
		if err != nil {
			fmt.Printf("HARNESS-ERROR property=%s witness %s: %v\n", id, findings[i].Witness, err)
			return 2
		}
		d, err := p.Decode(rp.Desc)
		if err != nil {
			fmt.Printf("HARNESS-ERROR property=%s witness %s: %v\n", id, findings[i].Witness, err)
			return 2
		}
		cases = append([]any{d}, cases...)
		nw++
	}
	fmt.Fprintf(os.Stderr, "[%s] tier=%s seed=%d cases=%d (incl. %d known-finding witnesses) workers=%d\n", id, opt.Tier, opt.Seed, len(cases), nw, opt.Workers)

	var outs []caseOut
	isolatedRun := false
	if iso, ok := p.(Isolated); ok && iso.Isolated() {
		isolatedRun = true
		outs = runIsolated(p, cases, opt)
	} else {
		outs = runInProcess(p, cases, opt)
	}

	// ---- confirmation: load-sensitive verdicts (C09 CPU time) are re-executed alone,
	// serially, before they count; a verdict that does not reproduce is inconclusive
	if cf, ok := p.(Confirmer); ok {
		idleChecked, idle := false, true
		confirm := func(r *Result) {
			if r.V != Violated || !cf.NeedsConfirm(*r) || len(r.Replay) == 0 {
				return
			}
			// a time verdict only counts when it reproduces on an otherwise idle machine:
			// wait for the load of the parallel phase (or of anything else running here) to
			// drain; if the machine never becomes idle the verdict stays inconclusive
			if !idleChecked {
				idleChecked = true
				idle = waitIdle(3.0, 12*time.Minute)
				if !idle {
					fmt.Fprintf(os.Stderr, "[%s] machine not idle (1-minute load average stays above 3): load-sensitive verdicts are inconclusive\n", id)
				}
			}
			if !idle {
				r.V, r.Msg = Inconclusive, "not confirmed, the machine is busy with other work: "+r.Msg
				return
			}
			d, err := p.Decode(r.Replay)
			if err != nil {
				return
			}
			var again Result
			if iso, ok := p.(Isolated); ok && iso.Isolated() {
				again = runIsolated(p, []any{d}, Options{Tier: opt.Tier, Seed: opt.Seed, Workers: 1})[0].res
			} else {
				again = SafeExec(p, d)
			}
			if again.V == Violated {
				again.Msg = "(confirmed alone) " + again.Msg
				keep := r.Replay
				feat, cells, sub, more := r.Feat, r.Cells, r.Sub, r.More
				*r = again
				r.Replay, r.Feat, r.Cells, r.Sub, r.More = keep, feat, cells, sub, more
				return
			}
			fmt.Fprintf(os.Stderr, "[%s] a %s verdict did not reproduce when the case was run alone: inconclusive\n", id, r.Class)
			r.V, r.Msg = Inconclusive, "not reproduced when run alone: "+r.Msg
		}
		for i := range outs {
			for j := range outs[i].res.More {
				confirm(&outs[i].res.More[j])
			}
			confirm(&outs[i].res)
		}
	}

	// ---- merge in case-index order
	ev := newEvidence(id, opt)
	known := map[string]*knownHit{}
	type viol struct {
		o    caseOut
		flat map[string]any
	}
	var unknown []viol
	var flatOuts []caseOut
	for _, o := range outs {
		ev.add(o)
		flatOuts = append(flatOuts, o)
		for _, m := range o.res.More {
			ev.byVerdict[m.V]++
			flatOuts = append(flatOuts, caseOut{idx: o.idx, desc: o.desc, res: m})
		}
	}
	for _, o := range flatOuts {
		if o.res.V != Violated {
			continue
		}
		flat := Flatten(o.desc, o.res.Derived)
		if dv, ok := p.(Deriver); ok {
			for k, v := range dv.Derive(o.desc) {
				if _, have := flat[k]; !have {
					flat[k] = v
				}
			}
		}
		matched := false
		for i := range findings {
			if findings[i].Matches(o.res.Class, flat) {
				k := findings[i].Name + "|" + findings[i].What
				h := known[k]
				if h == nil {
					h = &knownHit{f: &findings[i]}
					known[k] = h
					b, _ := json.Marshal(o.desc)
					h.first = string(b)
				}
				h.count++
				matched = true
				break
			}
		}
		if !matched {
			unknown = append(unknown, viol{o, flat})
		}
	}
	// ---- report
	keys := make([]string, 0, len(known))
	for k := range known {
		keys = append(keys, k)
	}
	sort.Strings(keys)
	knownList := []map[string]any{}
	for _, k := range keys {
		h := known[k]
		fmt.Printf("KNOWN-FINDING: property=%s %s [%s] (reproduced on %d cases this run)\n", id, h.f.What, h.f.Name, h.count)
		knownList = append(knownList, map[string]any{"name": h.f.Name, "what": h.f.What, "cases": h.count, "first": json.RawMessage(h.first)})
	}
	ev.extra["known_findings_reproduced"] = knownList
	perClass := map[string]int{}
	written := 0
	exit := 0
	classHist := map[string]int{}
	seenReplay := map[string]bool{}
	dump := os.Getenv("VERIF_DUMP") != ""
	for _, v := range unknown {
		if dump {
			b, _ := json.Marshal(map[string]any{"class": v.o.res.Class, "flat": v.flat, "msg": oneLine(v.o.res.Msg)})
			fmt.Fprintf(os.Stderr, "DUMP %s\n", b)
		}
		classHist[v.o.res.Class]++
		exit = 1
		sig := v.o.res.Class
		// at most 3 replays per failure class, MaxReplays per run
		if perClass[sig] >= 3 || written >= opt.MaxReplays {
			continue
		}
		path, err := WriteReplay(id, opt, v.o.desc, v.o.res)
		if err != nil {
			fmt.Printf("HARNESS-ERROR property=%s cannot write replay: %v\n", id, err)
			continue
		}
		if seenReplay[path] { // the same single input reached through another case
			continue
		}
		seenReplay[path] = true
		perClass[sig]++
		ev.replays = append(ev.replays, replayRef{sig, path})
		written++
		fmt.Printf("VIOLATION property=%s replay=%s class=%q %s\n", id, path, v.o.res.Class, oneLine(v.o.res.Msg))
	}
	if len(unknown) > 0 {
		fmt.Fprintf(os.Stderr, "[%s] %d violating cases outside known findings; classes: %v\n", id, len(unknown), classHist)
	}
	ev.violations = len(unknown)
	ev.extra["violation_classes"] = classHist
	// verifhook counters (library built with -tags verif): how often the rare coding paths
	// named in DESIGN.md 2.6 were driven by this run's in-process cases.  Evidence only.
	if verifhook.Enabled && !isolatedRun {
		hk := map[string]uint64{}
		var zero []string
		for k, v := range verifhook.Snapshot() {
			if v > 0 {
				hk[k] = v
			} else {
				zero = append(zero, k)
			}
		}
		sort.Strings(zero)
		ev.extra["hook_events"] = hk
		if len(hk) > 0 {
			// only meaningful for the properties that run the instrumented JPEG 2000 / HTJ2K code
			ev.extra["hook_events_never_hit"] = zero
		}
	}
	if fin, ok := p.(Finisher); ok {
		fin.Finish(ev.feat, ev.extra)
	}
	ev.wall = time.Since(start).Seconds()
	if ev.distinct() < 2 {
		fmt.Printf("HARNESS-ERROR property=%s observed nothing: %d evaluations, %d distinct non-trivial\n", id, ev.evals, ev.distinct())
		if exit == 0 {
			exit = 2
		}
	}
	if err := ev.write(p); err != nil {
		fmt.Printf("HARNESS-ERROR property=%s cannot write evidence: %v\n", id, err)
		if exit == 0 {
			exit = 2
		}
	}
	fmt.Fprintf(os.Stderr, "[%s] done in %.1fs: evaluations=%d nontrivial=%d held=%d violated=%d(known %d) inconclusive=%d out-of-domain=%d exit=%d\n",
		id, ev.wall, ev.evals, ev.distinct(), ev.byVerdict[Held], ev.byVerdict[Violated], ev.byVerdict[Violated]-len(unknown), ev.byVerdict[Inconclusive], ev.byVerdict[OutOfDomain], exit)
	return exit
}

func oneLine(s string) string {
	s = strings.ReplaceAll(s, "\n", " ")
	if len(s) > 300 {
		s = s[:300] + "..."
	}
	return s
}

// CaseTimeouter lets a property with legitimately long batch cases raise the in-process
// per-case watchdog (default 240 s, VERIF_CASE_TIMEOUT seconds).
type CaseTimeouter interface{ CaseTimeout() time.Duration }

// runInProcess executes the cases on a worker pool inside this process.  A case that is
// still running after the per-case limit is re-executed alone in a fresh process with the
// same limit: if that does not finish either the case is a violation of class "hang" (the
// library call does not produce a result), its worker is abandoned and replaced; if it
// does finish, the in-process run was merely slow (load) and is waited for.
func runInProcess(p Property, cases []any, opt Options) []caseOut {
	outs := make([]caseOut, len(cases))
	done := make([]int32, len(cases))
	var nDone int64
	var mu sync.Mutex
	finish := func(i int, r Result) bool {
		if !atomic.CompareAndSwapInt32(&done[i], 0, 1) {
			return false
		}
		mu.Lock()
		outs[i] = caseOut{idx: i, desc: cases[i], res: r}
		mu.Unlock()
		atomic.AddInt64(&nDone, 1)
		return true
	}
	limit := 240 * time.Second
	if ct, ok := p.(CaseTimeouter); ok {
		limit = ct.CaseTimeout()
	}
	if v := os.Getenv("VERIF_CASE_TIMEOUT"); v != "" {
		if n, err := strconv.Atoi(v); err == nil && n > 0 {
			limit = time.Duration(n) * time.Second
		}
	}
	type slot struct {
		idx     int64 // case index, -1 when idle
		start   int64 // unix nanoseconds
		excused int32 // the case finished alone: slow, not hung
		dead    int32 // abandoned
	}
	var slots []*slot
	var smu sync.Mutex
	next := make(chan int, 256)
	worker := func(sl *slot) {
		for i := range next {
			atomic.StoreInt32(&sl.excused, 0)
			atomic.StoreInt64(&sl.start, time.Now().UnixNano())
			atomic.StoreInt64(&sl.idx, int64(i))
			r := SafeExec(p, cases[i])
			atomic.StoreInt64(&sl.idx, -1)
			finish(i, r)
			if atomic.LoadInt32(&sl.dead) != 0 {
				return
			}
		}
	}
	spawn := func() {
		sl := &slot{idx: -1}
		smu.Lock()
		slots = append(slots, sl)
		smu.Unlock()
		go worker(sl)
	}
	for w := 0; w < opt.Workers; w++ {
		spawn()
	}
	// dispatch in a fixed pseudo-random order so that expensive cases that sit
	// together in the list are spread over the run; results stay in index order
	order := make([]int, len(cases))
	for i := range order {
		order[i] = i
	}
	rng := gen.New(0xD15BA7C4)
	for i := len(order) - 1; i > 0; i-- {
		j := rng.Intn(i + 1)
		order[i], order[j] = order[j], order[i]
	}
	go func() {
		for _, i := range order {
			next <- i
		}
		close(next)
	}()
	hung := 0
	for atomic.LoadInt64(&nDone) < int64(len(cases)) {
		time.Sleep(200 * time.Millisecond)
		smu.Lock()
		cur := append([]*slot(nil), slots...)
		smu.Unlock()
		for _, sl := range cur {
			i := atomic.LoadInt64(&sl.idx)
			if i < 0 || atomic.LoadInt32(&sl.dead) != 0 || atomic.LoadInt32(&sl.excused) != 0 {
				continue
			}
			if time.Duration(time.Now().UnixNano()-atomic.LoadInt64(&sl.start)) < limit {
				continue
			}
			fmt.Fprintf(os.Stderr, "[%s] case %d has been running for %v: re-executing it alone\n", p.ID(), i, limit)
			finished := confirmAlone(p, opt, cases[i], limit)
			if atomic.LoadInt64(&sl.idx) != i {
				continue // it came back in the meantime
			}
			if finished {
				atomic.StoreInt32(&sl.excused, 1)
				continue
			}
			r := Result{V: Violated, Class: "hang", NonTrivial: true, Msg: fmt.Sprintf("the case produced no result within %v, neither in the worker pool nor alone in a fresh process (the library call does not return)", limit)}
			if finish(int(i), r) {
				hung++
				atomic.StoreInt32(&sl.dead, 1)
				spawn()
			}
			if hung >= 6 {
				// give up on what is left: not executed, hence inconclusive
				for k := range cases {
					finish(k, Result{V: Inconclusive, Msg: "not executed: six cases of this run hung before it"})
				}
			}
		}
	}
	mu.Lock()
	defer mu.Unlock()
	return append([]caseOut(nil), outs...)
}

// confirmAlone runs one case through "vcheck replay" in a child process and reports
// whether it produced any verdict within the limit.
func confirmAlone(p Property, opt Options, desc any, limit time.Duration) bool {
	if Self == "" {
		return true // cannot confirm: never call it a hang
	}
	path, err := WriteReplay(p.ID(), opt, desc, Result{Class: "hang"})
	if err != nil {
		return true
	}
	cmd := exec.Command(Self, "replay", p.ID(), path)
	cmd.Env = append(os.Environ(), "VERIF_CASE_TIMEOUT=86400")
	if err := cmd.Start(); err != nil {
		return true
	}
	ch := make(chan struct{})
	go func() { _ = cmd.Wait(); close(ch) }()
	select {
	case <-ch:
		return true
	case <-time.After(limit):
		_ = cmd.Process.Kill()
		<-ch
		return false
	}
}

// waitIdle reports whether the machine is idle: either the 1-minute load average is below
// max, or six consecutive one-second samples of the number of currently runnable tasks
// (fourth field of /proc/loadavg) are all at most 2 (the load average takes minutes to
// forget this run's own parallel phase; the instantaneous count does not).  It gives up
// after limit (false).  Without /proc/loadavg it reports idle.
func waitIdle(max float64, limit time.Duration) bool {
	deadline := time.Now().Add(limit)
	calm := 0
	for {
		b, err := os.ReadFile("/proc/loadavg")
		if err != nil {
			return true
		}
		f := strings.Fields(string(b))
		if len(f) < 4 {
			return true
		}
		if v, err := strconv.ParseFloat(f[0], 64); err != nil || v < max {
			return true
		}
		running := 99
		if i := strings.IndexByte(f[3], '/'); i > 0 {
			if n, err := strconv.Atoi(f[3][:i]); err == nil {
				running = n
			}
		}
		if running <= 2 {
			calm++
			if calm >= 6 {
				return true
			}
		} else {
			calm = 0
		}
		if time.Now().After(deadline) {
			return false
		}
		time.Sleep(time.Second)
	}
}

// ---- replays

type Replay struct {
	Property string          `json:"property"`
	Tier     string          `json:"tier"`
	Seed     uint64          `json:"seed"`
	Class    string          `json:"class"`
	Msg      string          `json:"msg"`
	Stack    string          `json:"stack,omitempty"`
	Derived  map[string]any  `json:"derived,omitempty"`
	Desc     json.RawMessage `json:"desc"`
}

func WriteReplay(id string, opt Options, desc any, res Result) (string, error) {
	d, err := json.Marshal(desc)
	if err != nil {
		return "", err
	}
	if len(res.Replay) > 0 {
		d = res.Replay
	}
	h := sha256.Sum256(append([]byte(res.Class+"|"), d...))
	dir := filepath.Join(OutRoot(), "replays", id)
	if err := os.MkdirAll(dir, 0o755); err != nil {
		return "", err
	}
	path := filepath.Join(dir, hex.EncodeToString(h[:6])+".json")
	rp := Replay{Property: id, Tier: opt.Tier, Seed: opt.Seed, Class: res.Class, Msg: res.Msg, Stack: res.Stack, Derived: res.Derived, Desc: d}
	b, _ := json.MarshalIndent(rp, "", " ")
	return path, os.WriteFile(path, b, 0o644)
}

func LoadReplay(path string) (*Replay, error) {
	b, err := os.ReadFile(path)
	if err != nil {
		return nil, err
	}
	var rp Replay
	if err := json.Unmarshal(b, &rp); err != nil {
		return nil, err
	}
	return &rp, nil
}

// RunReplay re-executes exactly one stored case.
func RunReplay(p Property, path string) int {
	rp, err := LoadReplay(path)
	if err != nil {
		fmt.Printf("HARNESS-ERROR cannot load replay %s: %v\n", path, err)
		return 2
	}
	d, err := p.Decode(rp.Desc)
	if err != nil {
		fmt.Printf("HARNESS-ERROR cannot decode replay %s: %v\n", path, err)
		return 2
	}
	var res Result
	if iso, ok := p.(Isolated); ok && iso.Isolated() {
		outs := runIsolated(p, []any{d}, Options{Tier: rp.Tier, Seed: rp.Seed, Workers: 1})
		res = outs[0].res
	} else {
		res = SafeExec(p, d)
	}
	fmt.Printf("replay %s: verdict=%s class=%q %s\n", path, res.V, res.Class, oneLine(res.Msg))
	if res.Derived != nil {
		b, _ := json.Marshal(res.Derived)
		fmt.Printf("derived: %s\n", b)
	}
	if res.V == Violated {
		fmt.Printf("VIOLATION property=%s replay=%s\n", p.ID(), path)
		if res.Stack != "" {
			fmt.Fprintln(os.Stderr, res.Stack)
		}
		return 1
	}
	return 0
}
