//go:build verifglobals

// Package globals exposes the digests of all package-level variables of the
// library.  The digest functions are generated into a scratch copy of the
// repository by tools/genglobals; this file is only compiled for C18.
package globals

import "github.com/cocosip/go-dicom-codecs/verifglobals"

const Enabled = true

func Snapshot() map[string]uint64 { return verifglobals.Snapshot() }
