//go:build !verifglobals

package globals

const Enabled = false

func Snapshot() map[string]uint64 { return nil }
