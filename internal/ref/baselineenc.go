package ref

import (
	"math"
	"sort"
)

// Independent baseline sequential DCT encoder (ITU-T T.81, DESIGN appendix
// A.4): float DCT, Annex K quantisation tables scaled IJG-style, Annex K or
// per-image optimal Huffman tables, H/V sampling factors, DRI/RSTn, JFIF or
// Adobe APPn.  Only used to produce conformant streams for the library's
// decoders; correctness of its streams is cross-checked with image/jpeg.

type BaselineOptions struct {
	Quality  int
	HY, VY   int    // luma sampling factors (chroma is 1x1); ignored for 1 component
	Optimise bool   // per-image Huffman tables instead of Annex K
	DRI      int    // restart interval in MCUs, 0 = none
	App      string // "jfif", "adobe", "none"
	SplitDQT bool
}

var kLumQ = [64]int{16, 11, 10, 16, 24, 40, 51, 61, 12, 12, 14, 19, 26, 58, 60, 55, 14, 13, 16, 24, 40, 57, 69, 56, 14, 17, 22, 29, 51, 87, 80, 62,
	18, 22, 37, 56, 68, 109, 103, 77, 24, 35, 55, 64, 81, 104, 113, 92, 49, 64, 78, 87, 103, 121, 120, 101, 72, 92, 95, 98, 112, 100, 103, 99}
var kChrQ = [64]int{17, 18, 24, 47, 99, 99, 99, 99, 18, 21, 26, 66, 99, 99, 99, 99, 24, 26, 56, 99, 99, 99, 99, 99, 47, 66, 99, 99, 99, 99, 99, 99,
	99, 99, 99, 99, 99, 99, 99, 99, 99, 99, 99, 99, 99, 99, 99, 99, 99, 99, 99, 99, 99, 99, 99, 99, 99, 99, 99, 99, 99, 99, 99, 99}

var kDCLumBits = [17]int{0, 0, 1, 5, 1, 1, 1, 1, 1, 1, 0, 0, 0, 0, 0, 0, 0}
var kDCChrBits = [17]int{0, 0, 3, 1, 1, 1, 1, 1, 1, 1, 1, 1, 0, 0, 0, 0, 0}
var kDCVals = []byte{0, 1, 2, 3, 4, 5, 6, 7, 8, 9, 10, 11}
var kACLumBits = [17]int{0, 0, 2, 1, 3, 3, 2, 4, 3, 5, 5, 4, 4, 0, 0, 1, 0x7d}
var kACLumVals = []byte{0x01, 0x02, 0x03, 0x00, 0x04, 0x11, 0x05, 0x12, 0x21, 0x31, 0x41, 0x06, 0x13, 0x51, 0x61, 0x07, 0x22, 0x71, 0x14, 0x32, 0x81, 0x91, 0xa1, 0x08, 0x23, 0x42, 0xb1, 0xc1, 0x15, 0x52, 0xd1, 0xf0,
	0x24, 0x33, 0x62, 0x72, 0x82, 0x09, 0x0a, 0x16, 0x17, 0x18, 0x19, 0x1a, 0x25, 0x26, 0x27, 0x28, 0x29, 0x2a, 0x34, 0x35, 0x36, 0x37, 0x38, 0x39, 0x3a, 0x43, 0x44, 0x45, 0x46, 0x47, 0x48, 0x49,
	0x4a, 0x53, 0x54, 0x55, 0x56, 0x57, 0x58, 0x59, 0x5a, 0x63, 0x64, 0x65, 0x66, 0x67, 0x68, 0x69, 0x6a, 0x73, 0x74, 0x75, 0x76, 0x77, 0x78, 0x79, 0x7a, 0x83, 0x84, 0x85, 0x86, 0x87, 0x88, 0x89,
	0x8a, 0x92, 0x93, 0x94, 0x95, 0x96, 0x97, 0x98, 0x99, 0x9a, 0xa2, 0xa3, 0xa4, 0xa5, 0xa6, 0xa7, 0xa8, 0xa9, 0xaa, 0xb2, 0xb3, 0xb4, 0xb5, 0xb6, 0xb7, 0xb8, 0xb9, 0xba, 0xc2, 0xc3, 0xc4, 0xc5,
	0xc6, 0xc7, 0xc8, 0xc9, 0xca, 0xd2, 0xd3, 0xd4, 0xd5, 0xd6, 0xd7, 0xd8, 0xd9, 0xda, 0xe1, 0xe2, 0xe3, 0xe4, 0xe5, 0xe6, 0xe7, 0xe8, 0xe9, 0xea, 0xf1, 0xf2, 0xf3, 0xf4, 0xf5, 0xf6, 0xf7, 0xf8,
	0xf9, 0xfa}
var kACChrBits = [17]int{0, 0, 2, 1, 2, 4, 4, 3, 4, 7, 5, 4, 4, 0, 1, 2, 0x77}
var kACChrVals = []byte{0x00, 0x01, 0x02, 0x03, 0x11, 0x04, 0x05, 0x21, 0x31, 0x06, 0x12, 0x41, 0x51, 0x07, 0x61, 0x71, 0x13, 0x22, 0x32, 0x81, 0x08, 0x14, 0x42, 0x91, 0xa1, 0xb1, 0xc1, 0x09, 0x23, 0x33, 0x52, 0xf0,
	0x15, 0x62, 0x72, 0xd1, 0x0a, 0x16, 0x24, 0x34, 0xe1, 0x25, 0xf1, 0x17, 0x18, 0x19, 0x1a, 0x26, 0x27, 0x28, 0x29, 0x2a, 0x35, 0x36, 0x37, 0x38, 0x39, 0x3a, 0x43, 0x44, 0x45, 0x46, 0x47, 0x48,
	0x49, 0x4a, 0x53, 0x54, 0x55, 0x56, 0x57, 0x58, 0x59, 0x5a, 0x63, 0x64, 0x65, 0x66, 0x67, 0x68, 0x69, 0x6a, 0x73, 0x74, 0x75, 0x76, 0x77, 0x78, 0x79, 0x7a, 0x82, 0x83, 0x84, 0x85, 0x86, 0x87,
	0x88, 0x89, 0x8a, 0x92, 0x93, 0x94, 0x95, 0x96, 0x97, 0x98, 0x99, 0x9a, 0xa2, 0xa3, 0xa4, 0xa5, 0xa6, 0xa7, 0xa8, 0xa9, 0xaa, 0xb2, 0xb3, 0xb4, 0xb5, 0xb6, 0xb7, 0xb8, 0xb9, 0xba, 0xc2, 0xc3,
	0xc4, 0xc5, 0xc6, 0xc7, 0xc8, 0xc9, 0xca, 0xd2, 0xd3, 0xd4, 0xd5, 0xd6, 0xd7, 0xd8, 0xd9, 0xda, 0xe2, 0xe3, 0xe4, 0xe5, 0xe6, 0xe7, 0xe8, 0xe9, 0xea, 0xf2, 0xf3, 0xf4, 0xf5, 0xf6, 0xf7, 0xf8,
	0xf9, 0xfa}

func scaleQ(base [64]int, quality int) [64]int {
	if quality < 1 {
		quality = 1
	}
	if quality > 100 {
		quality = 100
	}
	var sc int
	if quality < 50 {
		sc = 5000 / quality
	} else {
		sc = 200 - 2*quality
	}
	var q [64]int
	for i, b := range base {
		v := (b*sc + 50) / 100
		if v < 1 {
			v = 1
		}
		if v > 255 {
			v = 255
		}
		q[i] = v
	}
	return q
}

type blkCoef [64]int // zig-zag order

func fdctQuant(blk *[64]float64, q *[64]int) blkCoef {
	var out blkCoef
	var tmp [64]float64
	for v := 0; v < 8; v++ {
		for u := 0; u < 8; u++ {
			s := 0.0
			for y := 0; y < 8; y++ {
				for x := 0; x < 8; x++ {
					s += blk[y*8+x] * math.Cos(float64(2*x+1)*float64(u)*math.Pi/16) * math.Cos(float64(2*y+1)*float64(v)*math.Pi/16)
				}
			}
			cu, cv := 1.0, 1.0
			if u == 0 {
				cu = 1 / math.Sqrt2
			}
			if v == 0 {
				cv = 1 / math.Sqrt2
			}
			tmp[v*8+u] = s * cu * cv / 4
		}
	}
	for k := 0; k < 64; k++ {
		n := zigzagNat[k]
		out[k] = int(math.Round(tmp[n] / float64(q[n])))
	}
	return out
}

type compPlan struct {
	h, v   int
	tq, td int
	plane  []float64 // level-shifted samples, padded to whole MCUs
	pw, ph int
}

// huffman symbol stream: (table class/id, symbol, extra bits)
type symEvt struct {
	ac    bool
	tab   int
	sym   byte
	bits  uint32
	nbits int
	rst   int // >=0: emit RSTn here instead of a symbol
}

func specFrom(bits [17]int, vals []byte) HuffSpec {
	return HuffSpec{Bits: bits, Vals: append([]byte(nil), vals...)}
}

func optimalFromFreq(freq [256]int) HuffSpec {
	// Annex K.2 over 256 symbols + reserved
	var f [257]int
	for i := 0; i < 256; i++ {
		f[i] = freq[i]
	}
	f[256] = 1
	var codesize, others [257]int
	for i := range others {
		others[i] = -1
	}
	for {
		v1, v2 := -1, -1
		for i := 0; i <= 256; i++ {
			if f[i] > 0 && (v1 < 0 || f[i] <= f[v1]) {
				v1 = i
			}
		}
		for i := 0; i <= 256; i++ {
			if f[i] > 0 && i != v1 && (v2 < 0 || f[i] <= f[v2]) {
				v2 = i
			}
		}
		if v2 < 0 {
			break
		}
		f[v1] += f[v2]
		f[v2] = 0
		for {
			codesize[v1]++
			if others[v1] < 0 {
				break
			}
			v1 = others[v1]
		}
		others[v1] = v2
		for {
			codesize[v2]++
			if others[v2] < 0 {
				break
			}
			v2 = others[v2]
		}
	}
	var bits [34]int
	for i := 0; i <= 256; i++ {
		if codesize[i] > 0 {
			bits[codesize[i]]++
		}
	}
	for i := 32; i > 16; i-- {
		for bits[i] > 0 {
			j := i - 2
			for bits[j] == 0 {
				j--
			}
			bits[i] -= 2
			bits[i-1]++
			bits[j+1] += 2
			bits[j]--
		}
	}
	i := 16
	for bits[i] == 0 {
		i--
	}
	bits[i]--
	h := HuffSpec{}
	for l := 1; l <= 16; l++ {
		h.Bits[l] = bits[l]
	}
	type sv struct{ s, l int }
	var sl []sv
	for s := 0; s < 256; s++ {
		if codesize[s] > 0 {
			sl = append(sl, sv{s, codesize[s]})
		}
	}
	sort.Slice(sl, func(a, b int) bool {
		if sl[a].l != sl[b].l {
			return sl[a].l < sl[b].l
		}
		return sl[a].s < sl[b].s
	})
	for _, x := range sl {
		h.Vals = append(h.Vals, byte(x.s))
	}
	return h
}

// BaselineEncode encodes 8-bit samples (pixel interleaved; 1 = grey, 3 = RGB
// converted to YCbCr with the JFIF matrix) into a baseline sequential stream.
func BaselineEncode(px []byte, w, h, nc int, o BaselineOptions) []byte {
	hy, vy := o.HY, o.VY
	if nc == 1 || hy < 1 {
		hy, vy = 1, 1
	}
	if vy < 1 {
		vy = 1
	}
	mcuW, mcuH := 8*hy, 8*vy
	mx, my := (w+mcuW-1)/mcuW, (h+mcuH-1)/mcuH
	qY, qC := scaleQ(kLumQ, o.Quality), scaleQ(kChrQ, o.Quality)
	comps := make([]*compPlan, nc)
	// full-resolution planes with edge replication to the MCU grid
	fw, fh := mx*mcuW, my*mcuH
	full := make([][]float64, nc)
	for c := range full {
		full[c] = make([]float64, fw*fh)
	}
	for y := 0; y < fh; y++ {
		sy := y
		if sy >= h {
			sy = h - 1
		}
		for x := 0; x < fw; x++ {
			sx := x
			if sx >= w {
				sx = w - 1
			}
			if nc == 1 {
				full[0][y*fw+x] = float64(px[sy*w+sx]) - 128
			} else {
				r, g, b := float64(px[(sy*w+sx)*3]), float64(px[(sy*w+sx)*3+1]), float64(px[(sy*w+sx)*3+2])
				full[0][y*fw+x] = 0.299*r + 0.587*g + 0.114*b - 128
				full[1][y*fw+x] = -0.168736*r - 0.331264*g + 0.5*b
				full[2][y*fw+x] = 0.5*r - 0.418688*g - 0.081312*b
			}
		}
	}
	for c := 0; c < nc; c++ {
		cp := &compPlan{h: 1, v: 1}
		if c == 0 {
			cp.h, cp.v = hy, vy
			cp.plane, cp.pw, cp.ph = full[0], fw, fh
		} else {
			cp.tq, cp.td = 1, 1
			// box-average down-sampling by (hy, vy)
			cp.pw, cp.ph = fw/hy, fh/vy
			cp.plane = make([]float64, cp.pw*cp.ph)
			for y := 0; y < cp.ph; y++ {
				for x := 0; x < cp.pw; x++ {
					s := 0.0
					for dy := 0; dy < vy; dy++ {
						for dx := 0; dx < hy; dx++ {
							s += full[c][(y*vy+dy)*fw+x*hy+dx]
						}
					}
					cp.plane[y*cp.pw+x] = s / float64(hy*vy)
				}
			}
		}
		comps[c] = cp
	}
	// symbol events
	var evts []symEvt
	pred := make([]int, nc)
	emitBlock := func(c int, coef blkCoef) {
		cp := comps[c]
		d := coef[0] - pred[c]
		pred[c] = coef[0]
		s := category(d)
		v := d
		if d < 0 {
			v = d - 1
		}
		evts = append(evts, symEvt{ac: false, tab: cp.td, sym: byte(s), bits: uint32(v) & ((1 << uint(s)) - 1), nbits: s})
		run := 0
		for k := 1; k < 64; k++ {
			if coef[k] == 0 {
				run++
				continue
			}
			for run > 15 {
				evts = append(evts, symEvt{ac: true, tab: cp.td, sym: 0xF0})
				run -= 16
			}
			s := category(coef[k])
			v := coef[k]
			if v < 0 {
				v--
			}
			evts = append(evts, symEvt{ac: true, tab: cp.td, sym: byte(run<<4 | s), bits: uint32(v) & ((1 << uint(s)) - 1), nbits: s})
			run = 0
		}
		if run > 0 {
			evts = append(evts, symEvt{ac: true, tab: cp.td, sym: 0x00})
		}
	}
	mcuCount, rstN := 0, 0
	for yy := 0; yy < my; yy++ {
		for xx := 0; xx < mx; xx++ {
			if o.DRI > 0 && mcuCount > 0 && mcuCount%o.DRI == 0 {
				evts = append(evts, symEvt{rst: rstN + 1})
				rstN = (rstN + 1) % 8
				for c := range pred {
					pred[c] = 0
				}
			}
			mcuCount++
			for c := 0; c < nc; c++ {
				cp := comps[c]
				q := &qY
				if cp.tq == 1 {
					q = &qC
				}
				for by := 0; by < cp.v; by++ {
					for bx := 0; bx < cp.h; bx++ {
						var blk [64]float64
						ox, oy := (xx*cp.h+bx)*8, (yy*cp.v+by)*8
						for y := 0; y < 8; y++ {
							for x := 0; x < 8; x++ {
								blk[y*8+x] = cp.plane[(oy+y)*cp.pw+ox+x]
							}
						}
						emitBlock(c, fdctQuant(&blk, q))
					}
				}
			}
		}
	}
	// tables
	tabs := map[[2]int]HuffSpec{{0, 0}: specFrom(kDCLumBits, kDCVals), {1, 0}: specFrom(kACLumBits, kACLumVals)}
	if nc == 3 {
		tabs[[2]int{0, 1}] = specFrom(kDCChrBits, kDCVals)
		tabs[[2]int{1, 1}] = specFrom(kACChrBits, kACChrVals)
	}
	if o.Optimise {
		fr := map[[2]int]*[256]int{}
		for _, e := range evts {
			if e.rst > 0 {
				continue
			}
			cl := 0
			if e.ac {
				cl = 1
			}
			k := [2]int{cl, e.tab}
			if fr[k] == nil {
				fr[k] = &[256]int{}
			}
			fr[k][e.sym]++
		}
		for k, f := range fr {
			tabs[k] = optimalFromFreq(*f)
		}
	}
	var out []byte
	seg := func(m byte, p []byte) {
		out = append(out, 0xFF, m, byte((len(p)+2)>>8), byte(len(p)+2))
		out = append(out, p...)
	}
	out = append(out, 0xFF, 0xD8)
	switch o.App {
	case "jfif":
		seg(0xE0, []byte{'J', 'F', 'I', 'F', 0, 1, 1, 0, 0, 1, 0, 1, 0, 0})
	case "adobe":
		seg(0xEE, []byte{'A', 'd', 'o', 'b', 'e', 0, 100, 0, 0, 0, 0, 1})
	}
	dqt := func(id int, q [64]int) []byte {
		p := []byte{byte(id)}
		for k := 0; k < 64; k++ {
			p = append(p, byte(q[zigzagNat[k]]))
		}
		return p
	}
	if nc == 1 {
		seg(0xDB, dqt(0, qY))
	} else if o.SplitDQT {
		seg(0xDB, dqt(0, qY))
		seg(0xDB, dqt(1, qC))
	} else {
		seg(0xDB, append(dqt(0, qY), dqt(1, qC)...))
	}
	sof := []byte{8, byte(h >> 8), byte(h), byte(w >> 8), byte(w), byte(nc)}
	for c := 0; c < nc; c++ {
		sof = append(sof, byte(c+1), byte(comps[c].h<<4|comps[c].v), byte(comps[c].tq))
	}
	seg(0xC0, sof)
	var keys [][2]int
	for k := range tabs {
		keys = append(keys, k)
	}
	sort.Slice(keys, func(a, b int) bool { return keys[a][0]*4+keys[a][1] < keys[b][0]*4+keys[b][1] })
	for _, k := range keys {
		t := tabs[k]
		p := []byte{byte(k[0]<<4 | k[1])}
		for l := 1; l <= 16; l++ {
			p = append(p, byte(t.Bits[l]))
		}
		seg(0xC4, append(p, t.Vals...))
	}
	if o.DRI > 0 {
		seg(0xDD, []byte{byte(o.DRI >> 8), byte(o.DRI)})
	}
	sos := []byte{byte(nc)}
	for c := 0; c < nc; c++ {
		sos = append(sos, byte(c+1), byte(comps[c].td<<4|comps[c].td))
	}
	seg(0xDA, append(sos, 0, 63, 0))
	codes := map[[2]int]map[byte]huffCode{}
	for k, t := range tabs {
		m, _ := t.codes()
		codes[k] = m
	}
	bw := &bitWriter{}
	for _, e := range evts {
		if e.rst > 0 {
			bw.flush()
			bw.out = append(bw.out, 0xFF, byte(0xD0+e.rst-1))
			continue
		}
		cl := 0
		if e.ac {
			cl = 1
		}
		hc := codes[[2]int{cl, e.tab}][e.sym]
		bw.put(hc.code, hc.len)
		if e.nbits > 0 {
			bw.put(e.bits, e.nbits)
		}
	}
	bw.flush()
	out = append(out, bw.out...)
	return append(out, 0xFF, 0xD9)
}
