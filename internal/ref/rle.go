// Package ref holds reference implementations written from the standards
// (DESIGN.md appendix A).  Nothing here imports the library under test.
package ref

import (
	"encoding/binary"
	"fmt"
)

// RLEStats is what the independent Annex G reader observed.
type RLEStats struct {
	NSeg          int
	Offsets       []int
	Literal       [129]int // histogram of literal packet lengths 1..128
	Replicate     [129]int // histogram of replicate packet lengths 2..128
	Noop          int
	TrailingBytes int // unread bytes after the plane was complete (sum over segments)
	TrailingNZ    int // ... of which non-zero
	OddOffsets    int // segment offsets that are odd (recorded, not judged)
	UnusedNonZero int // non-zero unused offset slots (recorded, not judged)
}

// RLEDecodeFrame parses a DICOM PS3.5 Annex G frame.
//
// Header: 16 little-endian uint32 (segment count N in 1..15, then 15 offsets
// from the start of the frame).  Structural requirements judged here are the
// ones property C01 states: even total length, N == wantSeg, offsets of the
// used slots strictly ascending, first >= 64, all < len.  Each segment is a
// PackBits stream that must produce exactly planeLen bytes.
func RLEDecodeFrame(frame []byte, wantSeg, planeLen int) (planes [][]byte, st RLEStats, err error) {
	if len(frame) < 64 {
		return nil, st, fmt.Errorf("frame shorter than the 64-byte header: %d", len(frame))
	}
	if len(frame)%2 != 0 {
		return nil, st, fmt.Errorf("odd frame length %d", len(frame))
	}
	n := int(binary.LittleEndian.Uint32(frame[0:4]))
	st.NSeg = n
	if n != wantSeg {
		return nil, st, fmt.Errorf("header segment count %d, expected %d byte planes", n, wantSeg)
	}
	if n < 1 || n > 15 {
		return nil, st, fmt.Errorf("segment count %d outside 1..15", n)
	}
	offs := make([]int, 15)
	for i := 0; i < 15; i++ {
		offs[i] = int(binary.LittleEndian.Uint32(frame[4+4*i:]))
	}
	st.Offsets = offs[:n]
	prev := 63
	for i := 0; i < n; i++ {
		if offs[i] <= prev {
			return nil, st, fmt.Errorf("offset[%d]=%d not ascending / below 64 (previous %d)", i, offs[i], prev)
		}
		if offs[i] >= len(frame) {
			return nil, st, fmt.Errorf("offset[%d]=%d outside frame of %d bytes", i, offs[i], len(frame))
		}
		if offs[i]%2 != 0 {
			st.OddOffsets++
		}
		prev = offs[i]
	}
	for i := n; i < 15; i++ {
		if offs[i] != 0 {
			st.UnusedNonZero++
		}
	}
	planes = make([][]byte, n)
	for s := 0; s < n; s++ {
		end := len(frame)
		if s+1 < n {
			end = offs[s+1]
		}
		seg := frame[offs[s]:end]
		out := make([]byte, 0, planeLen)
		i := 0
		for len(out) < planeLen {
			if i >= len(seg) {
				return nil, st, fmt.Errorf("segment %d: PackBits data exhausted after %d of %d bytes", s, len(out), planeLen)
			}
			c := int(int8(seg[i]))
			i++
			switch {
			case c >= 0:
				k := c + 1
				if i+k > len(seg) {
					return nil, st, fmt.Errorf("segment %d: literal of %d bytes runs past the segment end", s, k)
				}
				if len(out)+k > planeLen {
					return nil, st, fmt.Errorf("segment %d: literal of %d bytes overruns the plane (%d of %d done)", s, k, len(out), planeLen)
				}
				out = append(out, seg[i:i+k]...)
				i += k
				st.Literal[k]++
			case c >= -127:
				k := 1 - c
				if i >= len(seg) {
					return nil, st, fmt.Errorf("segment %d: replicate without value byte", s)
				}
				if len(out)+k > planeLen {
					return nil, st, fmt.Errorf("segment %d: replicate of %d bytes overruns the plane (%d of %d done)", s, k, len(out), planeLen)
				}
				v := seg[i]
				i++
				for j := 0; j < k; j++ {
					out = append(out, v)
				}
				st.Replicate[k]++
			default:
				st.Noop++
			}
		}
		rest := seg[i:]
		st.TrailingBytes += len(rest)
		for _, b := range rest {
			if b != 0 {
				st.TrailingNZ++
			}
		}
		planes[s] = out
	}
	return planes, st, nil
}

// RLEAssemble rebuilds the native frame from the byte planes: segments are the
// bytes of the composite pixel code, most significant byte first, sample by
// sample.  planar=0: colour-by-pixel, planar=1: colour-by-plane.  The native
// frame is padded with one zero byte when its length is odd.
func RLEAssemble(planes [][]byte, pixels, bytesPer, spp, planar int) []byte {
	n := pixels * bytesPer * spp
	out := make([]byte, n+(n&1))
	for s, pl := range planes {
		sample := s / bytesPer
		byteNo := bytesPer - 1 - s%bytesPer // little-endian position of this plane's byte
		for p := 0; p < pixels; p++ {
			var idx int
			if planar == 0 {
				idx = (p*spp+sample)*bytesPer + byteNo
			} else {
				idx = (sample*pixels+p)*bytesPer + byteNo
			}
			out[idx] = pl[p]
		}
	}
	return out
}
