package ref

import (
	"math"
	"sync"
)

// Independent float64 9/7 synthesis (ISO/IEC 15444-1 F.3.8, lifting with
// whole-sample symmetric extension), origin (0,0): low band = ceil(n/2)
// samples at even positions.  Written from the standard; shares nothing with
// the library's float32/OpenJPEG-scaled implementation.

const (
	dwtAlpha = -1.586134342059924
	dwtBeta  = -0.052980118572961
	dwtGamma = 0.882911075530934
	dwtDelta = 0.443506852043971
	dwtK     = 1.230174104914001
)

// inv97 applies the 1-D inverse transform in place on the interleaved signal
// (even positions low, odd positions high).  abs=true replaces every lifting
// coefficient by its absolute value with additive sign (upper bound operator).
func inv97(x []float64, abs bool) {
	n := len(x)
	if n == 1 {
		return
	}
	a, b, g, d := dwtAlpha, dwtBeta, dwtGamma, dwtDelta
	sgn := -1.0
	if abs {
		a, b, g, d = math.Abs(a), math.Abs(b), math.Abs(g), math.Abs(d)
		sgn = 1.0
	}
	at := func(i int) float64 { // whole-sample symmetric extension
		if i < 0 {
			i = -i
		}
		if i >= n {
			i = 2*(n-1) - i
		}
		if i < 0 {
			i = 0
		}
		return x[i]
	}
	for i := 0; i < n; i++ {
		if i%2 == 0 {
			x[i] *= dwtK
		} else {
			x[i] /= dwtK
		}
	}
	for i := 0; i < n; i += 2 {
		x[i] += sgn * d * (at(i-1) + at(i+1))
	}
	for i := 1; i < n; i += 2 {
		x[i] += sgn * g * (at(i-1) + at(i+1))
	}
	for i := 0; i < n; i += 2 {
		x[i] += sgn * b * (at(i-1) + at(i+1))
	}
	for i := 1; i < n; i += 2 {
		x[i] += sgn * a * (at(i-1) + at(i+1))
	}
}

// fwd97 is the matching analysis transform (used only to self-validate inv97).
func fwd97(x []float64) {
	n := len(x)
	if n == 1 {
		return
	}
	at := func(i int) float64 {
		if i < 0 {
			i = -i
		}
		if i >= n {
			i = 2*(n-1) - i
		}
		if i < 0 {
			i = 0
		}
		return x[i]
	}
	for i := 1; i < n; i += 2 {
		x[i] += dwtAlpha * (at(i-1) + at(i+1))
	}
	for i := 0; i < n; i += 2 {
		x[i] += dwtBeta * (at(i-1) + at(i+1))
	}
	for i := 1; i < n; i += 2 {
		x[i] += dwtGamma * (at(i-1) + at(i+1))
	}
	for i := 0; i < n; i += 2 {
		x[i] += dwtDelta * (at(i-1) + at(i+1))
	}
	for i := 0; i < n; i++ {
		if i%2 == 0 {
			x[i] /= dwtK
		} else {
			x[i] *= dwtK
		}
	}
}

func levelDims(w, h, l int) (int, int) {
	for i := 0; i < l; i++ {
		w, h = (w+1)/2, (h+1)/2
	}
	return w, h
}

// Inverse97 synthesises a w x h image from coefficients in Mallat layout.
func Inverse97(c []float64, w, h, levels int, abs bool) {
	buf := make([]float64, max(w, h))
	for l := levels; l >= 1; l-- {
		rw, rh := levelDims(w, h, l-1)
		lw, lh := (rw+1)/2, (rh+1)/2
		// columns
		for x := 0; x < rw; x++ {
			for y := 0; y < rh; y++ {
				var src int
				if y%2 == 0 {
					src = y / 2
				} else {
					src = lh + y/2
				}
				buf[y] = c[src*w+x]
			}
			inv97(buf[:rh], abs)
			for y := 0; y < rh; y++ {
				c[y*w+x] = buf[y]
			}
		}
		// rows
		for y := 0; y < rh; y++ {
			for x := 0; x < rw; x++ {
				var src int
				if x%2 == 0 {
					src = x / 2
				} else {
					src = lw + x/2
				}
				buf[x] = c[y*w+src]
			}
			inv97(buf[:rw], abs)
			copy(c[y*w:y*w+rw], buf[:rw])
		}
	}
}

// Forward97 is the analysis counterpart (self-validation only).
func Forward97(c []float64, w, h, levels int) {
	buf := make([]float64, max(w, h))
	for l := 1; l <= levels; l++ {
		rw, rh := levelDims(w, h, l-1)
		lw, lh := (rw+1)/2, (rh+1)/2
		for y := 0; y < rh; y++ {
			copy(buf[:rw], c[y*w:y*w+rw])
			fwd97(buf[:rw])
			for x := 0; x < rw; x++ {
				if x%2 == 0 {
					c[y*w+x/2] = buf[x]
				} else {
					c[y*w+lw+x/2] = buf[x]
				}
			}
		}
		for x := 0; x < rw; x++ {
			for y := 0; y < rh; y++ {
				buf[y] = c[y*w+x]
			}
			fwd97(buf[:rh])
			for y := 0; y < rh; y++ {
				if y%2 == 0 {
					c[(y/2)*w+x] = buf[y]
				} else {
					c[(lh+y/2)*w+x] = buf[y]
				}
			}
		}
	}
}

// BandOf returns the sub-band index (0 = LL; then for each level from the
// coarsest: HL, LH, HH) of position (x,y) in the Mallat layout.
func BandOf(x, y, w, h, levels int) int {
	for l := 1; l <= levels; l++ {
		rw, rh := levelDims(w, h, l-1)
		lw, lh := (rw+1)/2, (rh+1)/2
		if x >= rw || y >= rh {
			continue
		}
		hx, hy := x >= lw, y >= lh
		if hx || hy {
			base := 1 + 3*(levels-l)
			switch {
			case hx && !hy:
				return base
			case !hx && hy:
				return base + 1
			default:
				return base + 2
			}
		}
	}
	return 0
}

// GainMaps returns G[b][pixel] = sum over coefficients k of band b of
// |S(pixel,k)|, where S is the synthesis operator.  exact=true pushes unit
// impulses through Inverse97 (O(N^2)); otherwise the absolute-valued lifting
// operator gives an upper bound of the same quantity.
type gainKey struct {
	w, h, levels int
	exact        bool
}

var (
	gainMu    sync.Mutex
	gainCache = map[gainKey][][]float64{}
)

func GainMaps(w, h, levels int, exact bool) [][]float64 {
	key := gainKey{w, h, levels, exact}
	gainMu.Lock()
	if g, ok := gainCache[key]; ok {
		gainMu.Unlock()
		return g
	}
	gainMu.Unlock()
	nb := 3*levels + 1
	n := w * h
	G := make([][]float64, nb)
	for b := range G {
		G[b] = make([]float64, n)
	}
	band := make([]int, n)
	for y := 0; y < h; y++ {
		for x := 0; x < w; x++ {
			band[y*w+x] = BandOf(x, y, w, h, levels)
		}
	}
	c := make([]float64, n)
	if exact {
		for k := 0; k < n; k++ {
			for i := range c {
				c[i] = 0
			}
			c[k] = 1
			Inverse97(c, w, h, levels, false)
			g := G[band[k]]
			for i, v := range c {
				g[i] += math.Abs(v)
			}
		}
	} else {
		for b := 0; b < nb; b++ {
			for i := range c {
				if band[i] == b {
					c[i] = 1
				} else {
					c[i] = 0
				}
			}
			Inverse97(c, w, h, levels, true)
			copy(G[b], c)
		}
	}
	gainMu.Lock()
	if len(gainCache) > 300 {
		gainCache = map[gainKey][][]float64{}
	}
	gainCache[key] = G
	gainMu.Unlock()
	return G
}

// OpenJPEGHighGain is the net gain the library's (OpenJPEG-derived) synthesis applies to
// every high-pass sample per 1-D pass relative to the exact transform: its inverse scales
// high-pass samples by the constant 1.625732422 ("opj two_invK") where 2/K = 1.625786132.
const OpenJPEGHighGain = 1.625732422 * 1.230174105 / 2

// Inverse97HighGain is Inverse97 with every high-pass input of every 1-D pass multiplied
// by hg first; with hg = 1 it is Inverse97.
func Inverse97HighGain(c []float64, w, h, levels int, hg float64) {
	buf := make([]float64, max(w, h))
	scale := func(b []float64) {
		for i := 1; i < len(b); i += 2 {
			b[i] *= hg
		}
	}
	for l := levels; l >= 1; l-- {
		rw, rh := levelDims(w, h, l-1)
		lw, lh := (rw+1)/2, (rh+1)/2
		for x := 0; x < rw; x++ {
			for y := 0; y < rh; y++ {
				src := y / 2
				if y%2 == 1 {
					src = lh + y/2
				}
				buf[y] = c[src*w+x]
			}
			if rh > 1 {
				scale(buf[:rh])
			}
			inv97(buf[:rh], false)
			for y := 0; y < rh; y++ {
				c[y*w+x] = buf[y]
			}
		}
		for y := 0; y < rh; y++ {
			for x := 0; x < rw; x++ {
				src := x / 2
				if x%2 == 1 {
					src = lw + x/2
				}
				buf[x] = c[y*w+src]
			}
			if rw > 1 {
				scale(buf[:rw])
			}
			inv97(buf[:rw], false)
			copy(c[y*w:y*w+rw], buf[:rw])
		}
	}
}
