package ref

import (
	"fmt"
	"sort"
)

// Independent ITU-T T.81 Annex H (lossless, Huffman) encoder and decoder,
// written from the standard (DESIGN appendix A.2).

// HuffSpec is a DHT table: Bits[1..16] and the symbols in code order.
type HuffSpec struct {
	Bits [17]int
	Vals []byte
}

type huffCode struct {
	code uint32
	len  int
}

// codes derives the canonical code of every symbol (Annex C).
func (h *HuffSpec) codes() (map[byte]huffCode, error) {
	m := map[byte]huffCode{}
	code := uint32(0)
	k := 0
	for l := 1; l <= 16; l++ {
		for i := 0; i < h.Bits[l]; i++ {
			if k >= len(h.Vals) {
				return nil, fmt.Errorf("HUFFVAL shorter than BITS")
			}
			if code >= 1<<uint(l) {
				return nil, fmt.Errorf("over-subscribed table at length %d", l)
			}
			if _, dup := m[h.Vals[k]]; dup {
				return nil, fmt.Errorf("symbol %d twice", h.Vals[k])
			}
			m[h.Vals[k]] = huffCode{code, l}
			code++
			k++
		}
		code <<= 1
	}
	return m, nil
}

// LumDC17 is the Annex K.3 luminance DC table extended to 17 categories.
func LumDC17() HuffSpec {
	h := HuffSpec{}
	h.Bits = [17]int{0, 0, 1, 5, 1, 1, 1, 1, 1, 1, 1, 1, 1, 1, 1, 0, 0}
	for i := 0; i < 17; i++ {
		h.Vals = append(h.Vals, byte(i))
	}
	return h
}

// OptimalHuff builds a table for the given category frequencies following the
// Annex K.2 procedure (code lengths limited to 16, one code point reserved).
func OptimalHuff(freq [17]int) HuffSpec {
	var f [258]int
	for i := 0; i < 17; i++ {
		f[i] = freq[i]
	}
	f[256] = 1 // reserved code point
	var codesize [257]int
	var others [257]int
	for i := range others {
		others[i] = -1
	}
	for {
		// v1: least frequency > 0 (largest index on ties)
		v1, v2 := -1, -1
		for i := 0; i <= 256; i++ {
			if f[i] > 0 && (v1 < 0 || f[i] <= f[v1]) {
				v1 = i
			}
		}
		for i := 0; i <= 256; i++ {
			if f[i] > 0 && i != v1 && (v2 < 0 || f[i] <= f[v2]) {
				v2 = i
			}
		}
		if v2 < 0 {
			break
		}
		f[v1] += f[v2]
		f[v2] = 0
		for {
			codesize[v1]++
			if others[v1] < 0 {
				break
			}
			v1 = others[v1]
		}
		others[v1] = v2
		for {
			codesize[v2]++
			if others[v2] < 0 {
				break
			}
			v2 = others[v2]
		}
	}
	var bits [33]int
	for i := 0; i <= 256; i++ {
		if codesize[i] > 0 {
			bits[codesize[i]]++
		}
	}
	// adjust to 16 bits
	for i := 32; i > 16; i-- {
		for bits[i] > 0 {
			j := i - 2
			for bits[j] == 0 {
				j--
			}
			bits[i] -= 2
			bits[i-1]++
			bits[j+1] += 2
			bits[j]--
		}
	}
	i := 16
	for bits[i] == 0 {
		i--
	}
	bits[i]-- // remove the reserved code point
	h := HuffSpec{}
	for l := 1; l <= 16; l++ {
		h.Bits[l] = bits[l]
	}
	// sort symbols by code size then value
	type sv struct{ s, l int }
	var sl []sv
	for s := 0; s < 256; s++ {
		if codesize[s] > 0 {
			sl = append(sl, sv{s, codesize[s]})
		}
	}
	sort.Slice(sl, func(a, b int) bool {
		if sl[a].l != sl[b].l {
			return sl[a].l < sl[b].l
		}
		return sl[a].s < sl[b].s
	})
	for _, x := range sl {
		h.Vals = append(h.Vals, byte(x.s))
	}
	return h
}

// RandomHuff draws a valid canonical table covering all 17 categories with
// code lengths up to maxLen; complete=false leaves Kraft slack.  rnd returns a
// value in [0,n).
func RandomHuff(rnd func(n int) int, maxLen int) HuffSpec {
	for {
		lens := make([]int, 17)
		for i := range lens {
			lens[i] = 2 + rnd(maxLen-1)
		}
		// Kraft sum must stay < 1 (all-ones code of the longest length reserved)
		sum, unit := 0, 1<<16
		for _, l := range lens {
			sum += unit >> uint(l)
		}
		if sum >= unit {
			continue
		}
		h := HuffSpec{}
		order := rndPerm(rnd, 17)
		sort.SliceStable(order, func(a, b int) bool { return lens[order[a]] < lens[order[b]] })
		for _, s := range order {
			h.Bits[lens[s]]++
			h.Vals = append(h.Vals, byte(s))
		}
		if _, err := h.codes(); err != nil {
			continue
		}
		return h
	}
}

func rndPerm(rnd func(int) int, n int) []int {
	p := make([]int, n)
	for i := range p {
		p[i] = i
	}
	for i := n - 1; i > 0; i-- {
		j := rnd(i + 1)
		p[i], p[j] = p[j], p[i]
	}
	return p
}

type bitWriter struct {
	out  []byte
	acc  uint32
	nacc int
}

func (w *bitWriter) put(code uint32, n int) {
	for i := n - 1; i >= 0; i-- {
		w.acc = w.acc<<1 | (code>>uint(i))&1
		w.nacc++
		if w.nacc == 8 {
			b := byte(w.acc)
			w.out = append(w.out, b)
			if b == 0xFF {
				w.out = append(w.out, 0)
			}
			w.acc, w.nacc = 0, 0
		}
	}
}

func (w *bitWriter) flush() {
	for w.nacc != 0 {
		w.put(1, 1)
	}
}

func category(d int) int {
	if d < 0 {
		d = -d
	}
	n := 0
	for d > 0 {
		n++
		d >>= 1
	}
	return n
}

func predict(sel, ra, rb, rc int) int {
	switch sel {
	case 1:
		return ra
	case 2:
		return rb
	case 3:
		return rc
	case 4:
		return ra + rb - rc
	case 5:
		return ra + ((rb - rc) >> 1)
	case 6:
		return rb + ((ra - rc) >> 1)
	case 7:
		return (ra + rb) >> 1
	}
	return 0
}

// T81Options controls the layout of the reference encoder's stream.
type T81Options struct {
	Predictor   int
	Td          []int            // table destination per component
	Tables      map[int]HuffSpec // destination -> table
	DHTAfterSOF bool
	SplitDHT    bool     // one DHT segment per table instead of one for all
	Extra       [][]byte // raw APPn/COM segments (marker + length + payload) placed before SOF3
	CompIDs     []int    // component identifiers (default 1..n)
}

// T81Diffs returns the category histogram of an image for a predictor.
func T81Categories(samples [][]int, w, h, P, sel int) (freq [17]int) {
	forEachDiff(samples, w, h, P, sel, func(c, d int) {
		if d == 32768 {
			freq[16]++
		} else {
			freq[category(d)]++
		}
	})
	return
}

// forEachDiff visits the differences in MCU order (all H=V=1).
func forEachDiff(samples [][]int, w, h, P, sel int, f func(comp, diff int)) {
	half := 1 << uint(P-1)
	for y := 0; y < h; y++ {
		for x := 0; x < w; x++ {
			for c := range samples {
				s := samples[c]
				var px int
				switch {
				case x == 0 && y == 0:
					px = half
				case y == 0:
					px = s[x-1]
				case x == 0:
					px = s[(y-1)*w]
				default:
					px = predict(sel, s[y*w+x-1], s[(y-1)*w+x], s[(y-1)*w+x-1])
				}
				d := (s[y*w+x] - px) & 0xFFFF
				if d >= 32768 {
					d -= 65536
				}
				if d == -32768 {
					d = 32768
				}
				f(c, d)
			}
		}
	}
}

// T81LosslessEncode produces a conformant single-scan SOF3 stream.
// samples[c][y*w+x].
func T81LosslessEncode(samples [][]int, w, h, P int, o T81Options) ([]byte, error) {
	nc := len(samples)
	var out []byte
	seg := func(marker byte, payload []byte) {
		out = append(out, 0xFF, marker, byte((len(payload)+2)>>8), byte(len(payload)+2))
		out = append(out, payload...)
	}
	out = append(out, 0xFF, 0xD8)
	for _, e := range o.Extra {
		out = append(out, e...)
	}
	ids := o.CompIDs
	if ids == nil {
		for c := 0; c < nc; c++ {
			ids = append(ids, c+1)
		}
	}
	writeDHT := func() {
		var dests []int
		for d := range o.Tables {
			dests = append(dests, d)
		}
		sort.Ints(dests)
		var all []byte
		for _, d := range dests {
			t := o.Tables[d]
			p := []byte{byte(d)} // Tc=0, Th=d
			for l := 1; l <= 16; l++ {
				p = append(p, byte(t.Bits[l]))
			}
			p = append(p, t.Vals...)
			if o.SplitDHT {
				seg(0xC4, p)
			} else {
				all = append(all, p...)
			}
		}
		if !o.SplitDHT {
			seg(0xC4, all)
		}
	}
	if !o.DHTAfterSOF {
		writeDHT()
	}
	sof := []byte{byte(P), byte(h >> 8), byte(h), byte(w >> 8), byte(w), byte(nc)}
	for c := 0; c < nc; c++ {
		sof = append(sof, byte(ids[c]), 0x11, 0)
	}
	seg(0xC3, sof)
	if o.DHTAfterSOF {
		writeDHT()
	}
	sos := []byte{byte(nc)}
	for c := 0; c < nc; c++ {
		sos = append(sos, byte(ids[c]), byte(o.Td[c]<<4))
	}
	sos = append(sos, byte(o.Predictor), 0, 0)
	seg(0xDA, sos)
	codes := make([]map[byte]huffCode, nc)
	for c := 0; c < nc; c++ {
		t, ok := o.Tables[o.Td[c]]
		if !ok {
			return nil, fmt.Errorf("no table for destination %d", o.Td[c])
		}
		m, err := t.codes()
		if err != nil {
			return nil, err
		}
		codes[c] = m
	}
	bw := &bitWriter{}
	var encErr error
	forEachDiff(samples, w, h, P, o.Predictor, func(c, d int) {
		ssss := 16
		if d != 32768 {
			ssss = category(d)
		}
		hc, ok := codes[c][byte(ssss)]
		if !ok {
			encErr = fmt.Errorf("table %d lacks category %d", o.Td[c], ssss)
			return
		}
		bw.put(hc.code, hc.len)
		if ssss > 0 && ssss < 16 {
			v := d
			if d < 0 {
				v = d - 1
			}
			bw.put(uint32(v)&((1<<uint(ssss))-1), ssss)
		}
	})
	if encErr != nil {
		return nil, encErr
	}
	bw.flush()
	out = append(out, bw.out...)
	out = append(out, 0xFF, 0xD9)
	return out, nil
}

// T81LosslessResult is what the reference decoder recovered.
type T81LosslessResult struct {
	W, H, P, NC int
	Predictor   int
	Samples     [][]int
	CatSeen     [17]int
	MaxCodeLen  int
	PadBits     int  // unread bits of the last byte
	PadAllOnes  bool // those bits are all 1
	Info        *JPEGInfo
}

// T81LosslessDecode decodes a single-scan SOF3 stream strictly.
func T81LosslessDecode(d []byte) (*T81LosslessResult, error) {
	inf, err := WalkJPEG(d)
	if err != nil {
		return nil, err
	}
	if inf.SOF != 0xC3 {
		return nil, fmt.Errorf("not a lossless (SOF3) stream: SOF marker FF%02X", inf.SOF)
	}
	if len(inf.Scans) != 1 {
		return nil, fmt.Errorf("%d scans", len(inf.Scans))
	}
	sc := inf.Scans[0]
	if sc.Ss < 1 || sc.Ss > 7 || sc.Se != 0 || sc.Ah != 0 {
		return nil, fmt.Errorf("SOS: Ss=%d Se=%d Ah=%d", sc.Ss, sc.Se, sc.Ah)
	}
	if sc.Al != 0 {
		return nil, fmt.Errorf("point transform %d not supported by the reference", sc.Al)
	}
	if len(sc.Comps) != len(inf.Comps) {
		return nil, fmt.Errorf("scan has %d of %d components", len(sc.Comps), len(inf.Comps))
	}
	for _, c := range inf.Comps {
		if c.H != 1 || c.V != 1 {
			return nil, fmt.Errorf("sub-sampled lossless frames not supported by the reference")
		}
	}
	if inf.P < 2 || inf.P > 16 {
		return nil, fmt.Errorf("precision %d", inf.P)
	}
	res := &T81LosslessResult{W: inf.W, H: inf.H, P: inf.P, NC: len(sc.Comps), Predictor: sc.Ss, Info: inf}
	type dec struct {
		mincode, maxcode [18]int
		valptr           [18]int
		vals             []byte
	}
	decs := make([]*dec, res.NC)
	order := make([]int, res.NC) // scan component -> frame component index
	for k, c := range sc.Comps {
		for fi, fc := range inf.Comps {
			if fc.ID == c.Cs {
				order[k] = fi
			}
		}
		t := inf.FindDHT(0, c.Td)
		if t == nil {
			return nil, fmt.Errorf("scan component %d uses undefined Huffman table %d", c.Cs, c.Td)
		}
		dd := &dec{vals: t.Vals}
		code, p := 0, 0
		for l := 1; l <= 16; l++ {
			if t.Bits[l] == 0 {
				dd.maxcode[l] = -1
			} else {
				dd.valptr[l] = p
				dd.mincode[l] = code
				code += t.Bits[l]
				p += t.Bits[l]
				dd.maxcode[l] = code - 1
			}
			code <<= 1
		}
		decs[k] = dd
	}
	ecs := d[sc.DataStart:sc.DataEnd]
	pos, bit := 0, 0 // bit index within ecs[pos]
	nextBit := func() (int, error) {
		if pos >= len(ecs) {
			return 0, fmt.Errorf("entropy-coded data exhausted")
		}
		b := int(ecs[pos]>>uint(7-bit)) & 1
		bit++
		if bit == 8 {
			bit = 0
			if ecs[pos] == 0xFF {
				pos++ // skip the stuffed zero (the walker guaranteed FF00)
			}
			pos++
		}
		return b, nil
	}
	samples := make([][]int, len(inf.Comps))
	for i := range samples {
		samples[i] = make([]int, inf.W*inf.H)
	}
	half := 1 << uint(inf.P-1)
	for y := 0; y < inf.H; y++ {
		for x := 0; x < inf.W; x++ {
			for k := 0; k < res.NC; k++ {
				dd := decs[k]
				code, l := 0, 0
				ssss := -1
				for l < 16 {
					b, err := nextBit()
					if err != nil {
						return nil, fmt.Errorf("sample (%d,%d,%d): %v", x, y, k, err)
					}
					code = code<<1 | b
					l++
					if dd.maxcode[l] >= 0 && code <= dd.maxcode[l] && code >= dd.mincode[l] {
						ssss = int(dd.vals[dd.valptr[l]+code-dd.mincode[l]])
						break
					}
				}
				if ssss < 0 {
					return nil, fmt.Errorf("sample (%d,%d,%d): invalid Huffman code", x, y, k)
				}
				if ssss > 16 {
					return nil, fmt.Errorf("category %d", ssss)
				}
				if l > res.MaxCodeLen {
					res.MaxCodeLen = l
				}
				res.CatSeen[ssss]++
				diff := 0
				switch {
				case ssss == 16:
					diff = 32768
				case ssss > 0:
					v := 0
					for i := 0; i < ssss; i++ {
						b, err := nextBit()
						if err != nil {
							return nil, err
						}
						v = v<<1 | b
					}
					if v < 1<<uint(ssss-1) {
						v -= (1 << uint(ssss)) - 1
					}
					diff = v
				}
				s := samples[order[k]]
				var px int
				switch {
				case x == 0 && y == 0:
					px = half
				case y == 0:
					px = s[x-1]
				case x == 0:
					px = s[(y-1)*inf.W]
				default:
					px = predict(sc.Ss, s[y*inf.W+x-1], s[(y-1)*inf.W+x], s[(y-1)*inf.W+x-1])
				}
				s[y*inf.W+x] = (px + diff) & 0xFFFF
			}
		}
	}
	// padding: remaining bits of the current byte must be 1s and nothing else may follow
	if bit != 0 {
		res.PadBits = 8 - bit
		mask := byte(1<<uint(8-bit)) - 1
		res.PadAllOnes = ecs[pos]&mask == mask
		if ecs[pos] == 0xFF {
			pos++
		}
		pos++
	} else {
		res.PadAllOnes = true
	}
	if pos != len(ecs) {
		return nil, fmt.Errorf("%d unread bytes of entropy-coded data after the last sample", len(ecs)-pos)
	}
	res.Samples = samples
	return res, nil
}
