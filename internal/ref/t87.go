package ref

import (
	"fmt"
)

// Independent ITU-T T.87 (JPEG-LS) decoder, default coding parameters only
// (no LSE), ILV 0 (one component per scan, or a single-component image) and
// ILV 2 (sample interleaved).  Written from the standard's Annex A decoding
// procedure (DESIGN appendix A.3); shares no code with the library.

type T87Stats struct {
	Regular, RunSamples, Interruptions int
	Escapes                            int // limited-length (LIMIT) escape codes
	OverlongPrefix                     int // unary prefixes longer than LIMIT-qbpp-1 zeros (not code words)
	NonCanonicalRunEnd                 int // runs reaching the line end coded as '0'+remainder instead of '1'
	Resets                             int // N reached RESET
	BiasSat                            int // C saturated at -128/127
	MaxRunIndex                        int
	ModuloFix                          int // reconstructions that needed the modulo correction
	StuffedBytes                       int
}

type T87Result struct {
	W, H, NC, P int
	NEAR, ILV   int
	Samples     []int // pixel interleaved
	Stats       T87Stats
	PadBits     int
}

var t87J = [32]int{0, 0, 0, 0, 1, 1, 1, 1, 2, 2, 2, 2, 3, 3, 3, 3, 4, 4, 5, 5, 6, 6, 7, 7, 8, 9, 10, 11, 12, 13, 14, 15}

type t87Bits struct {
	d      []byte
	pos    int
	acc    uint64
	n      int
	prevFF bool
	st     *T87Stats
	over   int // bits read past the end
}

func (b *t87Bits) bit() int {
	if b.n == 0 {
		if b.pos >= len(b.d) {
			// reading past the end: supply a zero and remember
			b.over++
			return 0
		}
		v := b.d[b.pos]
		b.pos++
		if b.prevFF {
			// the byte after 0xFF carries 7 bits (MSB is a stuffed 0)
			b.acc = uint64(v & 0x7F)
			b.n = 7
			b.st.StuffedBytes++
		} else {
			b.acc = uint64(v)
			b.n = 8
		}
		b.prevFF = v == 0xFF
	}
	b.n--
	return int(b.acc>>uint(b.n)) & 1
}

func (b *t87Bits) bits(k int) int {
	v := 0
	for i := 0; i < k; i++ {
		v = v<<1 | b.bit()
	}
	return v
}

type t87State struct {
	maxval, near, rng, qbpp, bpp, limit, reset int
	t1, t2, t3                                 int
	A, B, C, N                                 [367]int
	Nn                                         [2]int
	runIndex                                   int
	st                                         *T87Stats
	br                                         *t87Bits
}

func ceilLog2(v int) int {
	n := 0
	for (1 << uint(n)) < v {
		n++
	}
	return n
}

func clampT(i, j, maxval int) int {
	if i > maxval || i < j {
		return j
	}
	return i
}

func newT87State(P, near int, st *T87Stats, br *t87Bits) *t87State {
	s := &t87State{st: st, br: br}
	s.maxval = (1 << uint(P)) - 1
	s.near = near
	s.rng = (s.maxval+2*near)/(2*near+1) + 1
	s.qbpp = ceilLog2(s.rng)
	s.bpp = ceilLog2(s.maxval + 1)
	if s.bpp < 2 {
		s.bpp = 2
	}
	m := s.bpp
	if m < 8 {
		m = 8
	}
	s.limit = 2 * (s.bpp + m)
	s.reset = 64
	if s.maxval >= 128 {
		f := s.maxval
		if f > 4095 {
			f = 4095
		}
		f = (f + 128) / 256
		s.t1 = clampT(f*(3-2)+2+3*near, near+1, s.maxval)
		s.t2 = clampT(f*(7-3)+3+5*near, s.t1, s.maxval)
		s.t3 = clampT(f*(21-4)+4+7*near, s.t2, s.maxval)
	} else {
		f := 256 / (s.maxval + 1)
		mx := func(a, b int) int {
			if a > b {
				return a
			}
			return b
		}
		s.t1 = clampT(mx(2, 3/f+3*near), near+1, s.maxval)
		s.t2 = clampT(mx(3, 7/f+5*near), s.t1, s.maxval)
		s.t3 = clampT(mx(4, 21/f+7*near), s.t2, s.maxval)
	}
	a0 := (s.rng + 32) / 64
	if a0 < 2 {
		a0 = 2
	}
	for i := range s.A {
		s.A[i] = a0
		s.N[i] = 1
	}
	return s
}

func (s *t87State) quant(d int) int {
	switch {
	case d <= -s.t3:
		return -4
	case d <= -s.t2:
		return -3
	case d <= -s.t1:
		return -2
	case d < -s.near:
		return -1
	case d <= s.near:
		return 0
	case d < s.t1:
		return 1
	case d < s.t2:
		return 2
	case d < s.t3:
		return 3
	}
	return 4
}

// golomb decodes a limited-length Golomb code.
func (s *t87State) golomb(k, limit int) int {
	z := 0
	for s.br.bit() == 0 {
		z++
		if z > limit+40 {
			break // corrupt stream; caller notices through br.over
		}
	}
	if z < limit-s.qbpp-1 {
		return z<<uint(k) | s.br.bits(k)
	}
	if z > limit-s.qbpp-1 {
		// A.5.3: the escape prefix is exactly LIMIT-qbpp-1 zeros and a one; a longer run
		// of zeros is not a code word of the limited-length Golomb code
		s.st.OverlongPrefix++
	}
	s.st.Escapes++
	return s.br.bits(s.qbpp) + 1
}

func (s *t87State) fixRecon(px, errval, sign int) int {
	e := errval * (2*s.near + 1)
	if sign < 0 {
		e = -e
	}
	rx := px + e
	if rx < -s.near {
		rx += s.rng * (2*s.near + 1)
		s.st.ModuloFix++
	} else if rx > s.maxval+s.near {
		rx -= s.rng * (2*s.near + 1)
		s.st.ModuloFix++
	}
	if rx < 0 {
		rx = 0
	}
	if rx > s.maxval {
		rx = s.maxval
	}
	return rx
}

// regular decodes one sample in regular mode; q1..q3 not all zero.
func (s *t87State) regular(ra, rb, rc, q1, q2, q3 int) int {
	s.st.Regular++
	sign := 1
	if q1 < 0 || (q1 == 0 && q2 < 0) || (q1 == 0 && q2 == 0 && q3 < 0) {
		sign = -1
		q1, q2, q3 = -q1, -q2, -q3
	}
	q := 81*q1 + 9*q2 + q3
	var px int
	mn, mx := ra, rb
	if mn > mx {
		mn, mx = mx, mn
	}
	switch {
	case rc >= mx:
		px = mn
	case rc <= mn:
		px = mx
	default:
		px = ra + rb - rc
	}
	if sign > 0 {
		px += s.C[q]
	} else {
		px -= s.C[q]
	}
	if px < 0 {
		px = 0
	}
	if px > s.maxval {
		px = s.maxval
	}
	k := 0
	for k < 48 && (s.N[q]<<uint(k)) < s.A[q] { // k is bounded: a corrupt stream must not hang the reference
		k++
	}
	m := s.golomb(k, s.limit)
	var errval int
	if s.near == 0 && k == 0 && 2*s.B[q] <= -s.N[q] {
		if m&1 == 1 {
			errval = (m - 1) / 2
		} else {
			errval = -m/2 - 1
		}
	} else {
		if m&1 == 0 {
			errval = m / 2
		} else {
			errval = -(m + 1) / 2
		}
	}
	// update
	s.B[q] += errval * (2*s.near + 1)
	if errval < 0 {
		s.A[q] -= errval
	} else {
		s.A[q] += errval
	}
	if s.N[q] == s.reset {
		s.st.Resets++
		s.A[q] >>= 1
		if s.B[q] >= 0 {
			s.B[q] >>= 1
		} else {
			s.B[q] = -((1 - s.B[q]) >> 1)
		}
		s.N[q] >>= 1
	}
	s.N[q]++
	if s.B[q] <= -s.N[q] {
		s.B[q] += s.N[q]
		if s.C[q] > -128 {
			s.C[q]--
		} else {
			s.st.BiasSat++
		}
		if s.B[q] <= -s.N[q] {
			s.B[q] = -s.N[q] + 1
		}
	} else if s.B[q] > 0 {
		s.B[q] -= s.N[q]
		if s.C[q] < 127 {
			s.C[q]++
		} else {
			s.st.BiasSat++
		}
		if s.B[q] > 0 {
			s.B[q] = 0
		}
	}
	return s.fixRecon(px, errval, sign)
}

// interruption decodes a run-interruption sample with the given RItype.
func (s *t87State) interruption(ra, rb, ritype int) int {
	s.st.Interruptions++
	q := 365 + ritype
	temp := s.A[q]
	if ritype == 1 {
		temp += s.N[q] >> 1
	}
	k := 0
	for k < 48 && (s.N[q]<<uint(k)) < temp {
		k++
	}
	em := s.golomb(k, s.limit-t87J[s.runIndex]-1)
	t := em + ritype
	mp := t & 1
	abs := (t + mp) / 2
	cond := 0
	if k != 0 || 2*s.Nn[ritype] >= s.N[q] {
		cond = 1
	}
	errval := abs
	if cond == mp {
		errval = -abs
	}
	// update
	if errval < 0 {
		s.Nn[ritype]++
	}
	s.A[q] += (em + 1 - ritype) >> 1
	if s.N[q] == s.reset {
		s.st.Resets++
		s.A[q] >>= 1
		s.N[q] >>= 1
		s.Nn[ritype] >>= 1
	}
	s.N[q]++
	if ritype == 1 {
		return s.fixRecon(ra, errval, 1)
	}
	sign := 1
	if ra > rb {
		sign = -1
	}
	return s.fixRecon(rb, errval, sign)
}

// runLength decodes the length of a run that may extend over `remaining` samples.
// It returns the run length and whether the run was ended by the end of the line.
func (s *t87State) runLength(remaining int) (int, bool) {
	n := 0
	for s.br.bit() == 1 {
		c := 1 << uint(t87J[s.runIndex])
		if c > remaining-n {
			c = remaining - n
		}
		n += c
		if c == 1<<uint(t87J[s.runIndex]) && s.runIndex < 31 {
			s.runIndex++
			if s.runIndex > s.st.MaxRunIndex {
				s.st.MaxRunIndex = s.runIndex
			}
		}
		if n == remaining {
			return n, true
		}
		if s.br.over > 0 {
			return n, true
		}
	}
	if j := t87J[s.runIndex]; j > 0 {
		n += s.br.bits(j)
	}
	if n > remaining {
		n = remaining // corrupt; caller compares anyway
	}
	return n, false
}

// T87Decode decodes a JPEG-LS stream produced with default parameters.
func T87Decode(d []byte) (*T87Result, error) {
	inf, err := WalkJPEG(d)
	if err != nil {
		return nil, err
	}
	if inf.SOF != 0xF7 {
		return nil, fmt.Errorf("not a JPEG-LS stream: frame marker FF%02X", inf.SOF)
	}
	if len(inf.LSE) > 0 {
		return nil, fmt.Errorf("LSE segments present: the reference implements default parameters only")
	}
	nc := len(inf.Comps)
	res := &T87Result{W: inf.W, H: inf.H, NC: nc, P: inf.P}
	if inf.P < 2 || inf.P > 16 {
		return nil, fmt.Errorf("precision %d", inf.P)
	}
	res.Samples = make([]int, inf.W*inf.H*nc)
	if len(inf.Scans) == 0 {
		return nil, fmt.Errorf("no scan")
	}
	first := inf.Scans[0]
	res.NEAR, res.ILV = first.NEAR, first.ILV
	if first.Al != 0 || first.Ah != 0 {
		return nil, fmt.Errorf("point transform not supported by the reference")
	}
	switch {
	case first.ILV == 0:
		// one component per scan
		if len(inf.Scans) != nc {
			return nil, fmt.Errorf("ILV=0 with %d scans for %d components", len(inf.Scans), nc)
		}
		for si, sc := range inf.Scans {
			if len(sc.Comps) != 1 || sc.ILV != 0 || sc.NEAR != first.NEAR {
				return nil, fmt.Errorf("scan %d: Ns=%d ILV=%d NEAR=%d", si, len(sc.Comps), sc.ILV, sc.NEAR)
			}
			ci := -1
			for k, fc := range inf.Comps {
				if fc.ID == sc.Comps[0].Cs {
					ci = k
				}
			}
			if ci < 0 {
				return nil, fmt.Errorf("scan %d: unknown component", si)
			}
			if err := t87Scan(d[sc.DataStart:sc.DataEnd], res, []int{ci}, &res.Stats); err != nil {
				return nil, fmt.Errorf("scan %d: %v", si, err)
			}
		}
	case first.ILV == 2:
		if len(inf.Scans) != 1 || len(first.Comps) != nc {
			return nil, fmt.Errorf("ILV=2 scan does not cover all components")
		}
		idx := make([]int, nc)
		for k, c := range first.Comps {
			idx[k] = -1
			for fi, fc := range inf.Comps {
				if fc.ID == c.Cs {
					idx[k] = fi
				}
			}
			if idx[k] < 0 {
				return nil, fmt.Errorf("unknown scan component")
			}
		}
		if err := t87Scan(d[first.DataStart:first.DataEnd], res, idx, &res.Stats); err != nil {
			return nil, err
		}
	default:
		return nil, fmt.Errorf("ILV=%d not supported by the reference", first.ILV)
	}
	return res, nil
}

// t87Scan decodes one scan covering the listed components (1 = plane/ILV 0, >1 = sample interleaved).
func t87Scan(ecs []byte, res *T87Result, comps []int, st *T87Stats) error {
	w, h, nc := res.W, res.H, res.NC
	br := &t87Bits{d: ecs, st: st}
	s := newT87State(res.P, res.NEAR, st, br)
	ns := len(comps)
	// line buffers per scan component with one guard sample on each side
	prev := make([][]int, ns)
	cur := make([][]int, ns)
	for k := range prev {
		prev[k] = make([]int, w+2)
		cur[k] = make([]int, w+2)
	}
	for y := 0; y < h; y++ {
		for k := 0; k < ns; k++ {
			// cur[-1] (index 0) = Rb of the first sample; prev[w+1] = prev[w]
			cur[k][0] = prev[k][1]
			prev[k][w+1] = prev[k][w]
		}
		x := 0
		for x < w {
			allZero := true
			var q [3][3]int
			for k := 0; k < ns; k++ {
				ra, rb, rc, rd := cur[k][x], prev[k][x+1], prev[k][x], prev[k][x+2]
				q[k][0], q[k][1], q[k][2] = s.quant(rd-rb), s.quant(rb-rc), s.quant(rc-ra)
				if q[k][0] != 0 || q[k][1] != 0 || q[k][2] != 0 {
					allZero = false
				}
			}
			if !allZero {
				for k := 0; k < ns; k++ {
					ra, rb, rc := cur[k][x], prev[k][x+1], prev[k][x]
					if ns > 1 && q[k][0] == 0 && q[k][1] == 0 && q[k][2] == 0 {
						// sample-interleaved: a component with a zero context inside a
						// non-run pixel is coded in regular mode with context 0
						cur[k][x+1] = s.regularZero(ra, rb, rc)
					} else {
						cur[k][x+1] = s.regular(ra, rb, rc, q[k][0], q[k][1], q[k][2])
					}
				}
				x++
				continue
			}
			// run mode
			n, eol := s.runLength(w - x)
			st.RunSamples += n
			for i := 0; i < n; i++ {
				for k := 0; k < ns; k++ {
					cur[k][x+1+i] = cur[k][x]
				}
			}
			x += n
			if eol || x >= w {
				if x > w {
					return fmt.Errorf("run overruns the line")
				}
				if !eol && x == w {
					// A.7.1.2: a run that reaches the end of the line is coded with a '1'
					// (whatever its length); '0' + remainder bits reaching exactly the line
					// end decodes the same way but is not what the standard's encoder emits
					st.NonCanonicalRunEnd++
				}
				continue
			}
			for k := 0; k < ns; k++ {
				ra, rb := cur[k][x], prev[k][x+1]
				if ns == 1 {
					ri := 0
					dd := ra - rb
					if dd < 0 {
						dd = -dd
					}
					if dd <= s.near {
						ri = 1
					}
					cur[k][x+1] = s.interruption(ra, rb, ri)
				} else {
					cur[k][x+1] = s.interruption(ra, rb, 0)
				}
			}
			if s.runIndex > 0 {
				s.runIndex--
			}
			x++
		}
		for k := 0; k < ns; k++ {
			for i := 0; i < w; i++ {
				res.Samples[(y*w+i)*nc+comps[k]] = cur[k][i+1]
			}
			prev[k], cur[k] = cur[k], prev[k]
			// Rc of the next line's first sample is the Ra used at the start of this
			// line, i.e. this line's cur[-1], which now sits in prev[k][0] already.
		}
		if br.over > 0 {
			return fmt.Errorf("entropy-coded data exhausted on line %d", y)
		}
	}
	// every whole byte must have been consumed: at most the remainder of the current byte is padding
	unread := len(ecs) - br.pos
	res.PadBits = br.n
	// legitimate leftovers: the rest of the current byte, plus one byte when the
	// last data byte is 0xFF (a 7-bit byte has to follow it)
	if unread > 1 || (unread == 1 && !br.prevFF) {
		return fmt.Errorf("%d unread bytes (+%d buffered bits) of entropy-coded data after the last sample", unread, br.n)
	}
	return nil
}

// regularZero codes a component whose own context is zero inside a pixel that is
// not in run mode (sample-interleaved scans): regular mode with Q = 0, SIGN = +1.
func (s *t87State) regularZero(ra, rb, rc int) int {
	return s.regular0(ra, rb, rc)
}

func (s *t87State) regular0(ra, rb, rc int) int {
	// identical to regular() with q=0 and positive sign
	s.st.Regular++
	q := 0
	var px int
	mn, mx := ra, rb
	if mn > mx {
		mn, mx = mx, mn
	}
	switch {
	case rc >= mx:
		px = mn
	case rc <= mn:
		px = mx
	default:
		px = ra + rb - rc
	}
	px += s.C[q]
	if px < 0 {
		px = 0
	}
	if px > s.maxval {
		px = s.maxval
	}
	k := 0
	for k < 48 && (s.N[q]<<uint(k)) < s.A[q] { // k is bounded: a corrupt stream must not hang the reference
		k++
	}
	m := s.golomb(k, s.limit)
	var errval int
	if s.near == 0 && k == 0 && 2*s.B[q] <= -s.N[q] {
		if m&1 == 1 {
			errval = (m - 1) / 2
		} else {
			errval = -m/2 - 1
		}
	} else {
		if m&1 == 0 {
			errval = m / 2
		} else {
			errval = -(m + 1) / 2
		}
	}
	s.B[q] += errval * (2*s.near + 1)
	if errval < 0 {
		s.A[q] -= errval
	} else {
		s.A[q] += errval
	}
	if s.N[q] == s.reset {
		s.st.Resets++
		s.A[q] >>= 1
		if s.B[q] >= 0 {
			s.B[q] >>= 1
		} else {
			s.B[q] = -((1 - s.B[q]) >> 1)
		}
		s.N[q] >>= 1
	}
	s.N[q]++
	if s.B[q] <= -s.N[q] {
		s.B[q] += s.N[q]
		if s.C[q] > -128 {
			s.C[q]--
		}
		if s.B[q] <= -s.N[q] {
			s.B[q] = -s.N[q] + 1
		}
	} else if s.B[q] > 0 {
		s.B[q] -= s.N[q]
		if s.C[q] < 127 {
			s.C[q]++
		}
		if s.B[q] > 0 {
			s.B[q] = 0
		}
	}
	return s.fixRecon(px, errval, 1)
}
