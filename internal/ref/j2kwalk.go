package ref

import (
	"fmt"
)

// Strict ISO/IEC 15444-1 codestream walker (DESIGN appendix A.5).  Shares no
// code with the library.

type J2KSIZ struct {
	Rsiz                         int
	Xsiz, Ysiz, XOsiz, YOsiz     int
	XTsiz, YTsiz, XTOsiz, YTOsiz int
	Csiz                         int
	Ssiz, XRsiz, YRsiz           []int
}

type J2KCOD struct {
	Scod      int
	Prog      int
	Layers    int
	MCT       int
	Levels    int
	XCB, YCB  int // code-block exponents (xcb = value+2)
	Style     int
	Transform int // 0 = 9/7 irreversible, 1 = 5/3 reversible
	Precincts []byte
}

type J2KQCD struct {
	Sqcd  int
	Guard int
	Style int   // 0 none, 1 derived, 2 expounded
	Eps   []int // exponents
	Mu    []int // mantissas (0 for style 0)
}

type J2KTilePart struct {
	Isot, Psot, TPsot, TNsot int
	Offset                   int // offset of the SOT marker
	BodyStart, BodyEnd       int
}

type J2KTLMEntry struct{ Ttlm, Ptlm int }

type J2KInfo struct {
	SIZ           J2KSIZ
	HasCAP        bool
	CAP           []byte
	COD           *J2KCOD
	QCD           *J2KQCD
	NumCOC        int
	NumQCC        int
	RGN           int
	MCT, MCC, MCO int
	COM           [][]byte
	TLM           []J2KTLMEntry
	HasTLM        bool
	TileParts     []J2KTilePart
	MainHeaderEnd int
	BadBodyPairs  int // FF followed by >8F inside tile-part bodies
	FirstBadPair  int
	FFInBodies    int
}

func be32(b []byte) int { return int(b[0])<<24 | int(b[1])<<16 | int(b[2])<<8 | int(b[3]) }

func WalkJ2K(d []byte) (*J2KInfo, error) {
	inf := &J2KInfo{FirstBadPair: -1}
	if len(d) < 4 || d[0] != 0xFF || d[1] != 0x4F {
		return nil, fmt.Errorf("codestream does not begin with SOC")
	}
	i := 2
	first := true
	// ---- main header
	for {
		if i+2 > len(d) {
			return inf, fmt.Errorf("main header truncated at %d", i)
		}
		if d[i] != 0xFF {
			return inf, fmt.Errorf("offset %d: expected a marker in the main header, found %02X", i, d[i])
		}
		m := int(d[i+1])
		if m == 0x90 { // SOT
			break
		}
		if m == 0xD9 {
			return inf, fmt.Errorf("EOC before any tile-part")
		}
		if i+4 > len(d) {
			return inf, fmt.Errorf("offset %d: truncated marker segment FF%02X", i, m)
		}
		L := be16(d[i+2:])
		if L < 2 || i+2+L > len(d) {
			return inf, fmt.Errorf("offset %d: segment FF%02X length %d runs past the stream", i, m, L)
		}
		seg := d[i+4 : i+2+L]
		if first && m != 0x51 {
			return inf, fmt.Errorf("first marker segment after SOC is FF%02X, not SIZ", m)
		}
		first = false
		switch m {
		case 0x51: // SIZ
			if len(seg) < 36 {
				return inf, fmt.Errorf("SIZ too short")
			}
			s := &inf.SIZ
			s.Rsiz = be16(seg)
			s.Xsiz, s.Ysiz, s.XOsiz, s.YOsiz = be32(seg[2:]), be32(seg[6:]), be32(seg[10:]), be32(seg[14:])
			s.XTsiz, s.YTsiz, s.XTOsiz, s.YTOsiz = be32(seg[18:]), be32(seg[22:]), be32(seg[26:]), be32(seg[30:])
			s.Csiz = be16(seg[34:])
			if L != 38+3*s.Csiz {
				return inf, fmt.Errorf("SIZ: Lsiz=%d does not match Csiz=%d (expected %d)", L, s.Csiz, 38+3*s.Csiz)
			}
			for c := 0; c < s.Csiz; c++ {
				s.Ssiz = append(s.Ssiz, int(seg[36+3*c]))
				s.XRsiz = append(s.XRsiz, int(seg[37+3*c]))
				s.YRsiz = append(s.YRsiz, int(seg[38+3*c]))
			}
			if s.XTsiz == 0 || s.YTsiz == 0 {
				return inf, fmt.Errorf("SIZ: zero tile size")
			}
		case 0x50: // CAP
			inf.HasCAP = true
			inf.CAP = append([]byte(nil), seg...)
		case 0x52: // COD
			if len(seg) < 10 {
				return inf, fmt.Errorf("COD too short")
			}
			c := &J2KCOD{Scod: int(seg[0]), Prog: int(seg[1]), Layers: be16(seg[2:]), MCT: int(seg[4]), Levels: int(seg[5]), XCB: int(seg[6]) + 2, YCB: int(seg[7]) + 2, Style: int(seg[8]), Transform: int(seg[9])}
			want := 10
			if c.Scod&1 != 0 {
				want += c.Levels + 1
				if len(seg) >= want {
					c.Precincts = append([]byte(nil), seg[10:want]...)
				}
			}
			if len(seg) != want {
				return inf, fmt.Errorf("COD: Lcod=%d does not match content (expected %d)", L, want+2)
			}
			inf.COD = c
		case 0x5C: // QCD
			if len(seg) < 1 {
				return inf, fmt.Errorf("QCD empty")
			}
			q := &J2KQCD{Sqcd: int(seg[0]), Guard: int(seg[0] >> 5), Style: int(seg[0] & 0x1F)}
			body := seg[1:]
			switch q.Style {
			case 0:
				for _, b := range body {
					q.Eps = append(q.Eps, int(b>>3))
					q.Mu = append(q.Mu, 0)
				}
			case 1, 2:
				if len(body)%2 != 0 {
					return inf, fmt.Errorf("QCD: odd SPqcd length")
				}
				for k := 0; k+1 < len(body); k += 2 {
					v := be16(body[k:])
					q.Eps = append(q.Eps, v>>11)
					q.Mu = append(q.Mu, v&0x7FF)
				}
			default:
				return inf, fmt.Errorf("QCD: unknown quantisation style %d", q.Style)
			}
			inf.QCD = q
		case 0x53:
			inf.NumCOC++
		case 0x5D:
			inf.NumQCC++
		case 0x5E:
			inf.RGN++
		case 0x74:
			inf.MCT++
		case 0x75:
			inf.MCC++
		case 0x77:
			inf.MCO++
		case 0x64:
			inf.COM = append(inf.COM, append([]byte(nil), seg...))
		case 0x55: // TLM
			inf.HasTLM = true
			if len(seg) < 2 {
				return inf, fmt.Errorf("TLM too short")
			}
			st, sp := int(seg[1]>>4)&3, int(seg[1]>>6)&1
			tsz, psz := st, 2+2*sp
			if st == 3 {
				return inf, fmt.Errorf("TLM: reserved ST")
			}
			body := seg[2:]
			if (tsz+psz) == 0 || len(body)%(tsz+psz) != 0 {
				return inf, fmt.Errorf("TLM: Ltlm=%d does not hold a whole number of entries", L)
			}
			for k := 0; k < len(body); k += tsz + psz {
				e := J2KTLMEntry{Ttlm: -1}
				if tsz == 1 {
					e.Ttlm = int(body[k])
				} else if tsz == 2 {
					e.Ttlm = be16(body[k:])
				}
				if psz == 2 {
					e.Ptlm = be16(body[k+tsz:])
				} else {
					e.Ptlm = be32(body[k+tsz:])
				}
				inf.TLM = append(inf.TLM, e)
			}
		}
		i += 2 + L
	}
	inf.MainHeaderEnd = i
	if inf.COD == nil || inf.QCD == nil {
		return inf, fmt.Errorf("main header lacks COD or QCD")
	}
	sopEph := inf.COD.Scod&0x06 != 0
	// ---- tile-parts
	for {
		if i+2 > len(d) {
			return inf, fmt.Errorf("codestream ends without EOC")
		}
		if d[i] == 0xFF && d[i+1] == 0xD9 {
			if i+2 != len(d) {
				return inf, fmt.Errorf("%d bytes follow EOC", len(d)-i-2)
			}
			break
		}
		if d[i] != 0xFF || d[i+1] != 0x90 {
			return inf, fmt.Errorf("offset %d: expected SOT or EOC, found %02X%02X (Psot of the previous tile-part does not end here)", i, d[i], d[i+1])
		}
		if i+12 > len(d) {
			return inf, fmt.Errorf("SOT truncated")
		}
		if be16(d[i+2:]) != 10 {
			return inf, fmt.Errorf("offset %d: Lsot=%d", i, be16(d[i+2:]))
		}
		tp := J2KTilePart{Isot: be16(d[i+4:]), Psot: be32(d[i+6:]), TPsot: int(d[i+10]), TNsot: int(d[i+11]), Offset: i}
		j := i + 12
		// tile-part header segments until SOD
		for {
			if j+2 > len(d) {
				return inf, fmt.Errorf("tile-part header truncated")
			}
			if d[j] != 0xFF {
				return inf, fmt.Errorf("offset %d: expected marker in tile-part header", j)
			}
			if d[j+1] == 0x93 {
				j += 2
				break
			}
			if j+4 > len(d) {
				return inf, fmt.Errorf("tile-part header truncated")
			}
			L := be16(d[j+2:])
			if L < 2 || j+2+L > len(d) {
				return inf, fmt.Errorf("offset %d: tile-part segment length %d runs past the stream", j, L)
			}
			j += 2 + L
		}
		tp.BodyStart = j
		if tp.Psot == 0 {
			// last tile-part: runs to EOC
			tp.BodyEnd = len(d) - 2
		} else {
			tp.BodyEnd = i + tp.Psot
		}
		if tp.BodyEnd < tp.BodyStart || tp.BodyEnd > len(d)-2 {
			return inf, fmt.Errorf("tile-part at %d: Psot=%d leaves the stream (body %d..%d of %d bytes)", i, tp.Psot, tp.BodyStart, tp.BodyEnd, len(d))
		}
		if !sopEph {
			for k := tp.BodyStart; k+1 < tp.BodyEnd; k++ {
				if d[k] == 0xFF {
					inf.FFInBodies++
					if d[k+1] > 0x8F {
						inf.BadBodyPairs++
						if inf.FirstBadPair < 0 {
							inf.FirstBadPair = k
						}
					}
				}
			}
			if tp.BodyEnd > tp.BodyStart && d[tp.BodyEnd-1] == 0xFF {
				inf.FFInBodies++
				inf.BadBodyPairs++ // FF followed by the next marker's FF (> 0x8F)
				if inf.FirstBadPair < 0 {
					inf.FirstBadPair = tp.BodyEnd - 1
				}
			}
		}
		inf.TileParts = append(inf.TileParts, tp)
		i = tp.BodyEnd
	}
	return inf, nil
}

// NumSubbands returns 3*levels+1.
func (c *J2KCOD) NumSubbands() int { return 3*c.Levels + 1 }

// StepSize returns the quantisation step of sub-band index b (0 = LL, then
// HL,LH,HH from the coarsest to the finest level) for nominal precision P.
func (inf *J2KInfo) StepSize(b, P int) (float64, error) {
	q := inf.QCD
	levels := inf.COD.Levels
	gain := 0
	if b > 0 {
		switch (b - 1) % 3 {
		case 0, 1:
			gain = 1
		case 2:
			gain = 2
		}
	}
	var eps, mu int
	switch q.Style {
	case 2:
		if b >= len(q.Eps) {
			return 0, fmt.Errorf("QCD has %d entries, sub-band %d needed", len(q.Eps), b)
		}
		eps, mu = q.Eps[b], q.Mu[b]
	case 1:
		if len(q.Eps) < 1 {
			return 0, fmt.Errorf("QCD derived without LL entry")
		}
		nb := levels // decomposition level of the band (LL: levels)
		if b > 0 {
			nb = levels - (b-1)/3
		}
		eps, mu = q.Eps[0]-levels+nb, q.Mu[0]
	default:
		return 1, nil
	}
	R := P + gain
	step := 1.0
	sh := R - eps
	for sh > 0 {
		step *= 2
		sh--
	}
	for sh < 0 {
		step /= 2
		sh++
	}
	return step * (1 + float64(mu)/2048), nil
}
