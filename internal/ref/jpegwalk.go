package ref

import (
	"fmt"
)

// Strict ITU-T T.81 / T.87 marker walker (DESIGN appendix A.2-A.4).  It shares
// no code with the library.  It accepts exactly one image: SOI, tables/misc,
// one frame header, tables/misc, one or more scans, EOI as the last two bytes.

type JPEGComp struct {
	ID, H, V, Tq int
}

type JPEGScanComp struct {
	Cs, Td, Ta int
}

type JPEGDHT struct {
	Class, ID int
	Bits      [17]int
	Vals      []byte
	Offset    int // position of the table inside the stream (DHT before/after SOF)
	// Complete: the code lengths exhaust the code space, i.e. the last code word of the
	// longest length is all 1 bits, which T.81 C.2 / K.2 reserve ("the codes shall be
	// generated such that the all-1-bits code word of any length is reserved").
	Complete bool
}

// CompleteDHT returns the first Huffman table specification that assigns the reserved
// all-ones code word, or nil.
func (inf *JPEGInfo) CompleteDHT() *JPEGDHT {
	for k := range inf.DHTs {
		if inf.DHTs[k].Complete {
			return &inf.DHTs[k]
		}
	}
	return nil
}

type JPEGScan struct {
	Comps          []JPEGScanComp
	Ss, Se, Ah, Al int
	NEAR, ILV      int // T.87 reading of the same bytes (Ss=NEAR, Se=ILV)
	DataStart      int
	DataEnd        int // exclusive; position of the marker that ends the ECS
	RSTCount       int
}

type JPEGSegment struct {
	Marker int
	Offset int
	Length int // value of the length field (0 for stand-alone markers)
}

type JPEGInfo struct {
	SOF        int // marker low byte: 0xC0, 0xC1, 0xC3, 0xF7, ...
	P, W, H    int
	Comps      []JPEGComp
	DQT        map[int][64]int // natural (de-zigzagged) order
	DQTPrec    map[int]int
	DHTs       []JPEGDHT
	Scans      []JPEGScan
	DRI        int
	Segments   []JPEGSegment
	HasJFIF    bool
	HasAdobe   bool
	AdobeXform int
	LSE        [][]byte
	SOFOffset  int
	Trailing   int // bytes after EOI
	StuffedFF  int // FF00 pairs seen in entropy-coded data
}

var zigzagNat = [64]int{
	0, 1, 8, 16, 9, 2, 3, 10, 17, 24, 32, 25, 18, 11, 4, 5,
	12, 19, 26, 33, 40, 48, 41, 34, 27, 20, 13, 6, 7, 14, 21, 28,
	35, 42, 49, 56, 57, 50, 43, 36, 29, 22, 15, 23, 30, 37, 44, 51,
	58, 59, 52, 45, 38, 31, 39, 46, 53, 60, 61, 54, 47, 55, 62, 63,
}

func be16(b []byte) int { return int(b[0])<<8 | int(b[1]) }

// WalkJPEG parses the stream strictly.  jls selects the T.87 rule for
// entropy-coded data (a byte following 0xFF must have its MSB clear, otherwise
// it is a marker) instead of the T.81 rule (0xFF is followed by 0x00 or RSTn).
func WalkJPEG(d []byte) (*JPEGInfo, error) {
	inf := &JPEGInfo{DQT: map[int][64]int{}, DQTPrec: map[int]int{}}
	if len(d) < 4 || d[0] != 0xFF || d[1] != 0xD8 {
		return nil, fmt.Errorf("stream does not begin with SOI")
	}
	inf.Segments = append(inf.Segments, JPEGSegment{0xD8, 0, 0})
	i := 2
	sawEOI := false
	for i < len(d) {
		if d[i] != 0xFF {
			return inf, fmt.Errorf("offset %d: expected a marker, found %02X", i, d[i])
		}
		// fill bytes (optional 0xFF padding before a marker) are legal; count them strictly as fill
		for i+1 < len(d) && d[i+1] == 0xFF {
			i++
		}
		if i+1 >= len(d) {
			return inf, fmt.Errorf("offset %d: truncated marker", i)
		}
		m := int(d[i+1])
		off := i
		i += 2
		switch {
		case m == 0xD9:
			inf.Segments = append(inf.Segments, JPEGSegment{m, off, 0})
			sawEOI = true
			inf.Trailing = len(d) - i
			if inf.Trailing != 0 {
				return inf, fmt.Errorf("%d bytes follow EOI", inf.Trailing)
			}
			if inf.SOF == 0 {
				return inf, fmt.Errorf("EOI without a frame header")
			}
			if len(inf.Scans) == 0 {
				return inf, fmt.Errorf("EOI without a scan")
			}
			return inf, nil
		case m == 0xD8:
			return inf, fmt.Errorf("offset %d: second SOI", off)
		case m >= 0xD0 && m <= 0xD7, m == 0x01, m == 0x00:
			return inf, fmt.Errorf("offset %d: stand-alone marker FF%02X outside a scan", off, m)
		}
		if i+2 > len(d) {
			return inf, fmt.Errorf("offset %d: truncated length of FF%02X", off, m)
		}
		L := be16(d[i:])
		if L < 2 || i+L > len(d) {
			return inf, fmt.Errorf("offset %d: segment FF%02X length %d runs past the stream (%d bytes)", off, m, L, len(d))
		}
		seg := d[i+2 : i+L]
		inf.Segments = append(inf.Segments, JPEGSegment{m, off, L})
		i += L
		switch {
		case m == 0xDB: // DQT
			p := 0
			for p < len(seg) {
				pq, tq := int(seg[p]>>4), int(seg[p]&15)
				p++
				if pq > 1 || tq > 3 {
					return inf, fmt.Errorf("DQT: bad Pq/Tq %d/%d", pq, tq)
				}
				n := 64 * (pq + 1)
				if p+n > len(seg) {
					return inf, fmt.Errorf("DQT: table %d truncated (segment length does not match content)", tq)
				}
				var t [64]int
				for k := 0; k < 64; k++ {
					var v int
					if pq == 0 {
						v = int(seg[p+k])
					} else {
						v = be16(seg[p+2*k:])
					}
					if v == 0 {
						return inf, fmt.Errorf("DQT: table %d has a zero entry", tq)
					}
					t[zigzagNat[k]] = v
				}
				p += n
				inf.DQT[tq] = t
				inf.DQTPrec[tq] = pq
			}
		case m == 0xC4: // DHT
			p := 0
			for p < len(seg) {
				if p+17 > len(seg) {
					return inf, fmt.Errorf("DHT: truncated BITS")
				}
				h := JPEGDHT{Class: int(seg[p] >> 4), ID: int(seg[p] & 15), Offset: off}
				if h.Class > 1 || h.ID > 3 {
					return inf, fmt.Errorf("DHT: bad Tc/Th %d/%d", h.Class, h.ID)
				}
				tot := 0
				for k := 1; k <= 16; k++ {
					h.Bits[k] = int(seg[p+k])
					tot += h.Bits[k]
				}
				p += 17
				if p+tot > len(seg) {
					return inf, fmt.Errorf("DHT: HUFFVAL truncated (need %d)", tot)
				}
				h.Vals = append([]byte(nil), seg[p:p+tot]...)
				p += tot
				// Kraft inequality; the all-ones code of the longest length is reserved
				code, maxLen := 0, 0
				for k := 1; k <= 16; k++ {
					code = (code + h.Bits[k])
					if h.Bits[k] > 0 {
						maxLen = k
					}
					if code > (1 << uint(k)) {
						return inf, fmt.Errorf("DHT %d/%d: over-subscribed code lengths at length %d", h.Class, h.ID, k)
					}
					if k < 16 {
						code <<= 1
					}
				}
				h.Complete = maxLen > 0 && code == 1<<16
				inf.DHTs = append(inf.DHTs, h)
			}
		case m == 0xDD: // DRI
			if len(seg) != 2 {
				return inf, fmt.Errorf("DRI: length %d", L)
			}
			inf.DRI = be16(seg)
		case m == 0xC0 || m == 0xC1 || m == 0xC2 || m == 0xC3 || m == 0xF7 || (m >= 0xC5 && m <= 0xCF && m != 0xC8 && m != 0xCC):
			if inf.SOF != 0 {
				return inf, fmt.Errorf("offset %d: second frame header", off)
			}
			if len(seg) < 6 {
				return inf, fmt.Errorf("SOF: too short")
			}
			inf.SOF, inf.SOFOffset = m, off
			inf.P, inf.H, inf.W = int(seg[0]), be16(seg[1:]), be16(seg[3:])
			nf := int(seg[5])
			if len(seg) != 6+3*nf {
				return inf, fmt.Errorf("SOF: length %d does not match %d components", L, nf)
			}
			for k := 0; k < nf; k++ {
				c := JPEGComp{ID: int(seg[6+3*k]), H: int(seg[7+3*k] >> 4), V: int(seg[7+3*k] & 15), Tq: int(seg[8+3*k])}
				if c.H < 1 || c.H > 4 || c.V < 1 || c.V > 4 {
					return inf, fmt.Errorf("SOF: component %d sampling %dx%d", c.ID, c.H, c.V)
				}
				inf.Comps = append(inf.Comps, c)
			}
		case m == 0xF8: // LSE
			inf.LSE = append(inf.LSE, append([]byte(nil), seg...))
		case m == 0xE0:
			if len(seg) >= 5 && string(seg[:5]) == "JFIF\x00" {
				inf.HasJFIF = true
			}
		case m == 0xEE:
			if len(seg) >= 12 && string(seg[:5]) == "Adobe" {
				inf.HasAdobe = true
				inf.AdobeXform = int(seg[11])
			}
		case m == 0xDA: // SOS
			if inf.SOF == 0 {
				return inf, fmt.Errorf("SOS before the frame header")
			}
			if len(seg) < 1 {
				return inf, fmt.Errorf("SOS: empty")
			}
			ns := int(seg[0])
			if len(seg) != 1+2*ns+3 {
				return inf, fmt.Errorf("SOS: length %d does not match %d components", L, ns)
			}
			sc := JPEGScan{}
			for k := 0; k < ns; k++ {
				c := JPEGScanComp{Cs: int(seg[1+2*k]), Td: int(seg[2+2*k] >> 4), Ta: int(seg[2+2*k] & 15)}
				found := false
				for _, fc := range inf.Comps {
					if fc.ID == c.Cs {
						found = true
					}
				}
				if !found {
					return inf, fmt.Errorf("SOS: component selector %d not in the frame header", c.Cs)
				}
				sc.Comps = append(sc.Comps, c)
			}
			sc.Ss, sc.Se = int(seg[1+2*ns]), int(seg[2+2*ns])
			sc.Ah, sc.Al = int(seg[3+2*ns]>>4), int(seg[3+2*ns]&15)
			sc.NEAR, sc.ILV = sc.Ss, sc.Se
			sc.DataStart = i
			jls := inf.SOF == 0xF7
			// entropy-coded segment
			for {
				if i >= len(d) {
					return inf, fmt.Errorf("scan data runs to the end of the stream without EOI")
				}
				if d[i] != 0xFF {
					i++
					continue
				}
				if i+1 >= len(d) {
					return inf, fmt.Errorf("scan data ends in a lone 0xFF")
				}
				n := d[i+1]
				if jls {
					if n&0x80 == 0 {
						inf.StuffedFF++
						i += 2
						continue
					}
				} else {
					if n == 0x00 {
						inf.StuffedFF++
						i += 2
						continue
					}
					if n >= 0xD0 && n <= 0xD7 {
						if inf.DRI == 0 {
							return inf, fmt.Errorf("offset %d: RST%d in a scan without DRI", i, n-0xD0)
						}
						if int(n-0xD0) != sc.RSTCount%8 {
							return inf, fmt.Errorf("offset %d: RST%d out of sequence (expected RST%d)", i, n-0xD0, sc.RSTCount%8)
						}
						sc.RSTCount++
						i += 2
						continue
					}
				}
				if n == 0xFF {
					// fill byte before a marker
					i++
					continue
				}
				break // a marker ends the scan
			}
			sc.DataEnd = i
			inf.Scans = append(inf.Scans, sc)
		default:
			// APPn, COM, others: length already validated
		}
	}
	if !sawEOI {
		return inf, fmt.Errorf("stream ends without EOI")
	}
	return inf, nil
}

// FindDHT returns the last table with the given class/id defined before pos.
func (inf *JPEGInfo) FindDHT(class, id int) *JPEGDHT {
	var r *JPEGDHT
	for k := range inf.DHTs {
		if inf.DHTs[k].Class == class && inf.DHTs[k].ID == id {
			r = &inf.DHTs[k]
		}
	}
	return r
}
