# Go environment for this sandbox (see DESIGN.md section 1): the default go is
# 1.23.5 and must auto-switch to the cached go1.25.0 toolchain demanded by
# /repo/go.mod; GOSUMDB=off and GOTOOLCHAIN=local both break that.
unset GOSUMDB
export GOFLAGS=-mod=mod GOPROXY=off GOTOOLCHAIN=go1.25.0
export GOCACHE="${GOCACHE:-$HOME/.cache/go-build}"
