#!/bin/bash
# Builds the harness once, offline, from files on disk only.
set -e
cd "$(dirname "$0")"
. ./env.sh
cp /repo/go.sum ./go.sum 2>/dev/null || true
mkdir -p bin evidence replays
go build -tags verif -o bin/vcheck ./cmd/vcheck
echo "setup ok"
