#!/bin/bash
# ./check.sh <Cxx> [quick|thorough]        run the check of one property
# ./check.sh <Cxx> --replay <file>         re-execute one stored case
# Rebuilds the harness against /repo's current working tree on every call
# (the go.mod replace directive points at /repo; unchanged trees hit the build cache).
cd "$(dirname "$0")"
. ./env.sh
ID="$1"; shift
MODE="${1:-${VERIF_TIER:-quick}}"
REPO="${VERIF_REPO:-/repo}"
cp "$REPO/go.sum" ./go.sum 2>/dev/null || true
mkdir -p bin evidence replays .scratch
BIN=bin/vcheck
MODFLAG=""
if [ "$REPO" != "/repo" ]; then
  # development aid (seeded-change runs against a scratch worktree): same harness, other tree
  TAG=$(echo "$REPO" | tr -c 'A-Za-z0-9' '_')
  sed "s#=> /repo#=> $REPO#" go.mod > .scratch/alt$TAG.mod
  cp go.sum .scratch/alt$TAG.sum
  MODFLAG="-modfile=.scratch/alt$TAG.mod"
  BIN=bin/vcheck$TAG
  export VERIF_REPO="$REPO"
  export VERIF_OUT="$PWD/.scratch/out$TAG"
  mkdir -p "$VERIF_OUT"
fi
if [ "$ID" = "C18" ]; then
  # C18: race-detector build against a scratch copy of /repo's working tree into which
  # tools/genglobals writes digest functions over all package-level variables.
  BIN=bin/vcheck-race$TAG
  SCR="$PWD/.scratch/c18-repo$TAG"
  mkdir -p "$PWD/.scratch"
  rm -rf "$SCR"
  rsync -a --exclude .git --exclude test-data --exclude _out "$REPO/" "$SCR/"
  if ! go run ./tools/genglobals "$SCR" >bin/genglobals.out 2>&1; then
    cat bin/genglobals.out; echo "HARNESS-ERROR property=$ID genglobals failed"; exit 2
  fi
  sed "s#=> /repo#=> $SCR#" go.mod > .scratch/c18$TAG.mod
  cp go.sum .scratch/c18$TAG.sum
  # the verifhook event counters are atomics; the race detector treats atomic operations as
  # synchronisation, so counting events inside the library could order two goroutines that the
  # library itself leaves unordered and hide a race.  The C18 build therefore leaves the verif
  # tag OFF (hooks compiled out) and only enables the generated globals digests.
  if ! go build -race -tags "verifglobals" -modfile=.scratch/c18$TAG.mod -o $BIN ./cmd/vcheck 2>bin/build.err; then
    cat bin/build.err; echo "HARNESS-ERROR property=$ID build failed (library does not compile?)"; exit 2
  fi
  rm -rf "$SCR"
else
  if ! go build -tags verif $MODFLAG -o $BIN ./cmd/vcheck 2>bin/build.err; then
    cat bin/build.err; echo "HARNESS-ERROR property=$ID build failed (library does not compile with -tags verif?)"; exit 2
  fi
fi
if [ "$MODE" = "--replay" ]; then
  exec $BIN replay "$ID" "$2"
fi
exec $BIN run "$ID" "$MODE"
