#!/bin/bash
# ./check.sh <Cxx> [quick|thorough]        run the check of one property
# ./check.sh <Cxx> --replay <file>         re-execute one stored case
# Rebuilds the harness against /repo's current working tree on every call
# (the go.mod replace directive points at /repo; unchanged trees hit the build cache).
cd "$(dirname "$0")"
. ./env.sh
ID="$1"; shift
MODE="${1:-${VERIF_TIER:-quick}}"
cp /repo/go.sum ./go.sum 2>/dev/null || true
mkdir -p bin evidence replays
BIN=bin/vcheck
if [ "$ID" = "C18" ]; then
  BIN=bin/vcheck-race
  if ! go build -race -tags verif -o $BIN ./cmd/vcheck 2>bin/build.err; then
    cat bin/build.err; echo "HARNESS-ERROR property=$ID build failed (library does not compile with -tags verif?)"; exit 2
  fi
else
  if ! go build -tags verif -o $BIN ./cmd/vcheck 2>bin/build.err; then
    cat bin/build.err; echo "HARNESS-ERROR property=$ID build failed (library does not compile with -tags verif?)"; exit 2
  fi
fi
if [ "$MODE" = "--replay" ]; then
  exec $BIN replay "$ID" "$2"
fi
exec $BIN run "$ID" "$MODE"
