#!/bin/bash
# ./check.sh <Cxx> [quick|thorough]        run the check of one property
# ./check.sh <Cxx> --replay <file>         re-execute one stored case
# Rebuilds the harness against /repo's current working tree on every call
# (the go.mod replace directive points at /repo; unchanged trees hit the build cache).
cd "$(dirname "$0")"
. ./env.sh
ID="$1"; shift
MODE="${1:-${VERIF_TIER:-quick}}"
cp /repo/go.sum ./go.sum 2>/dev/null || true
mkdir -p bin evidence replays
BIN=bin/vcheck
if [ "$ID" = "C18" ]; then
  # C18: race-detector build against a scratch copy of /repo's working tree into which
  # tools/genglobals writes digest functions over all package-level variables.
  BIN=bin/vcheck-race
  SCR="$PWD/.scratch/c18-repo"
  mkdir -p "$PWD/.scratch"
  rm -rf "$SCR"
  rsync -a --exclude .git --exclude test-data /repo/ "$SCR/"
  if ! go run ./tools/genglobals "$SCR" >bin/genglobals.out 2>&1; then
    cat bin/genglobals.out; echo "HARNESS-ERROR property=$ID genglobals failed"; exit 2
  fi
  sed "s#=> /repo#=> $SCR#" go.mod > .scratch/c18.mod
  cp go.sum .scratch/c18.sum
  if ! go build -race -tags "verif verifglobals" -modfile=.scratch/c18.mod -o $BIN ./cmd/vcheck 2>bin/build.err; then
    cat bin/build.err; echo "HARNESS-ERROR property=$ID build failed (library does not compile?)"; exit 2
  fi
  rm -rf "$SCR"
else
  if ! go build -tags verif -o $BIN ./cmd/vcheck 2>bin/build.err; then
    cat bin/build.err; echo "HARNESS-ERROR property=$ID build failed (library does not compile with -tags verif?)"; exit 2
  fi
fi
if [ "$MODE" = "--replay" ]; then
  exec $BIN replay "$ID" "$2"
fi
exec $BIN run "$ID" "$MODE"
