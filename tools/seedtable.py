#!/usr/bin/env python3
"""Regenerates the table of seeded changes in DESIGN.md from seeded/*/meta.json."""
import glob, json, os, re

ROOT = os.path.dirname(os.path.dirname(os.path.abspath(__file__)))

def first_line(readme):
    for l in readme.splitlines():
        l = l.strip()
        if l.startswith("#"):
            return re.sub(r"^#+\s*", "", l)
    return ""

rows = []
for d in sorted(glob.glob(os.path.join(ROOT, "seeded", "*", "meta.json"))):
    m = json.load(open(d))
    chk = m.get("check", {})
    files = []
    p = os.path.join(os.path.dirname(d), "patch.diff")
    if os.path.exists(p):
        files = [l.split(" b/")[-1].strip() for l in open(p) if l.startswith("diff --git")]
    title = first_line(m.get("needs_to_manifest", ""))
    title = re.sub(r"^C\d\d\s*/\s*\w+\s*[—-]+\s*", "", title)
    cls = ""
    mm = re.search(r'class="([^"]+)"', chk.get("first", ""))
    if mm:
        cls = mm.group(1)[:60]
    hist = "; missed before strengthening" if m.get("history") else ""
    tier = "thorough" if "thorough" in chk.get("cmd", "") else "quick"
    reg = m.get("regression", {})
    regs = "%s (%ss)" % (reg.get("status"), reg.get("wall_s", "?")) if reg else "-"
    rows.append("| %s | %s | %s | %s (%s, %ss)%s | %s | %s |" % (m["id"], ", ".join(files), title.replace("|", "/")[:110], m.get("status", "?"), tier, chk.get("wall_s", "?"), hist, cls.replace("|", "/"), regs))
table = "| change | file(s) | what it does | property's check when admitted | violation class reported | final regression (tools/seedall.py) |\n|---|---|---|---|---|---|\n" + "\n".join(rows) + "\n"
p = os.path.join(ROOT, "DESIGN.md")
s = open(p).read()
s = re.sub(r"<!-- seeded-table:begin -->.*<!-- seeded-table:end -->", "<!-- seeded-table:begin -->\n" + table + "<!-- seeded-table:end -->", s, flags=re.S)
open(p, "w").write(s)
print(len(rows), "rows")
