#!/usr/bin/env python3
"""Regression of the registered quick checks against every seeded change in seeded/.

usage: seedall.py [--only C01,C02a,...] [--stream k/n]

For every seeded/<id>/patch.diff: scratch worktree /tmp/sw/<id> of /repo HEAD, apply the patch
(plain or 3-way), `go build ./...`, run `VERIF_REPO=<worktree> ./check.sh <Cxx> quick`, record the
outcome under "regression" in seeded/<id>/meta.json, remove the worktree and the scratch binary.
The demonstration and the library's own suite were validated by tools/seedtest.py when the change
was admitted; they are not repeated here.  Never touches /repo's working tree.
"""
import glob, json, os, subprocess, sys, time

ENV = dict(os.environ, GOFLAGS="-mod=mod", GOPROXY="off", GOTOOLCHAIN="go1.25.0")
ENV.pop("GOSUMDB", None)


def sh(cmd, cwd=None, timeout=7200):
    p = subprocess.run(cmd, shell=True, cwd=cwd, env=ENV, stdout=subprocess.PIPE, stderr=subprocess.STDOUT, timeout=timeout)
    return p.returncode, p.stdout.decode(errors="replace")


def main():
    only = None
    k, n = 0, 1
    a = sys.argv[1:]
    if "--only" in a:
        only = a[a.index("--only") + 1].split(",")
    if "--stream" in a:
        k, n = [int(x) for x in a[a.index("--stream") + 1].split("/")]
    ids = sorted(os.path.basename(os.path.dirname(p)) for p in glob.glob("/verif/seeded/*/patch.diff"))
    if only:
        ids = [i for i in ids if i in only or i[:3] in only]
    ids = [i for j, i in enumerate(ids) if j % n == k]
    harness = sh("git -C /verif rev-parse --short HEAD")[1].strip()
    repo = sh("git -C /repo rev-parse --short HEAD")[1].strip()
    os.makedirs("/tmp/sw", exist_ok=True)
    for sid in ids:
        prop = sid[:3]
        wt = f"/tmp/sw/{sid}"
        tag = wt.replace("/", "_") + "_"
        reg = {"repo_commit": repo, "harness_commit_at_start": harness, "cmd": f"VERIF_REPO={wt} ./check.sh {prop} quick"}
        try:
            sh(f"git -C /repo worktree remove --force {wt}")
            rc, o = sh(f"git -C /repo worktree add --detach {wt} HEAD")
            if rc != 0:
                reg["status"] = "worktree-failed"
                continue
            patch = f"/verif/seeded/{sid}/patch.diff"
            rc, o = sh(f"git apply {patch}", cwd=wt)
            if rc != 0:
                rc, o = sh(f"git apply --3way {patch}", cwd=wt)
            if rc != 0:
                reg["status"] = "patch-does-not-apply"
                reg["detail"] = o[-400:]
                continue
            rc, o = sh("go build ./...", cwd=wt)
            if rc != 0:
                reg["status"] = "does-not-build"
                reg["detail"] = o[-400:]
                continue
            t0 = time.time()
            rc, o = sh(f"VERIF_REPO={wt} ./check.sh {prop} quick", cwd="/verif")
            viol = [l for l in o.splitlines() if l.startswith("VIOLATION")]
            reg.update({"exit": rc, "wall_s": round(time.time() - t0, 1), "violations": len(viol), "first": viol[0][:300] if viol else ""})
            reg["status"] = "detected" if rc == 1 and viol else "MISSED"
        finally:
            sh(f"git -C /repo worktree remove --force {wt}")
            sh(f"rm -f /verif/bin/vcheck{tag} /verif/bin/vcheck-race{tag} /verif/.scratch/alt{tag}.mod /verif/.scratch/alt{tag}.sum /verif/.scratch/c18{tag}.mod /verif/.scratch/c18{tag}.sum; rm -rf /verif/.scratch/out{tag}")
            mp = f"/verif/seeded/{sid}/meta.json"
            m = json.load(open(mp))
            m["regression"] = reg
            json.dump(m, open(mp, "w"), indent=1)
            print(f"{sid} {reg.get('status')} {reg.get('wall_s', '')}s {reg.get('first', '')[:120]}", flush=True)


if __name__ == "__main__":
    main()
