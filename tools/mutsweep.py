#!/usr/bin/env python3
"""Mass single-token mutation sweep over library sources (development aid, not a registered check).

For every mutation point of the chosen files (relational / logical / arithmetic operator flips and
off-by-one constants) it patches a scratch copy of /repo, rebuilds, and runs the quick checks of
the properties anchored in that part of the library until one reports a violation.  Mutants that no
check notices are then put in front of the library's own package tests.  What survives both is
written to the result file for manual triage (equivalent mutant, code outside every property, or a
hole in a check).

usage: mutsweep.py --stream k/n [--max-per-file N] [--seed S] files...
result: /tmp/mut/results<k>.jsonl (one line per mutant)
"""
import json, os, random, re, subprocess, sys, time

ENV = dict(os.environ, GOFLAGS="-mod=mod", GOPROXY="off", GOTOOLCHAIN="go1.25.0", VERIF_CASE_TIMEOUT="45")
ENV.pop("GOSUMDB", None)

CHECKS = [
    ("rle/", ["C01", "C16", "C10"]),
    ("jpeg/lossless14sv1/", ["C02", "C13", "C16", "C10"]),
    ("jpeg/lossless/", ["C02", "C13", "C16", "C10"]),
    ("jpeg/standard/", ["C02", "C13", "C11", "C15", "C16"]),
    ("jpeg/baseline/", ["C11", "C15", "C16", "C10"]),
    ("jpeg/extended/", ["C11", "C15", "C16", "C10"]),
    ("jpegls/", ["C03", "C07", "C14", "C16", "C10"]),
    ("jpeg2000/htj2k/", ["C06", "C16", "C10"]),
    ("jpeg2000/lossless/", ["C05", "C10"]),
    ("jpeg2000/lossy/", ["C10", "C12"]),
    ("jpeg2000/", ["C04", "C20", "C19", "C05", "C12", "C06", "C16", "C10"]),
]

MUTATIONS = [
    (r"(?<![<>=!:+\-*/&|^])<=(?!=)", "<"), (r"(?<![<>=!:+\-*/&|^\-])<(?![<=\-])", "<="),
    (r"(?<![<>=!:+\-*/&|^])>=(?!=)", ">"), (r"(?<![<>=!:+\-*/&|^\-])>(?![>=])", ">="),
    (r"==", "!="), (r"!=", "=="), (r"&&", "||"), (r"\|\|", "&&"),
    (r"(?<=[\w)\]]) \+ 1\b", ""), (r"(?<=[\w)\]]) - 1\b", ""), (r"(?<=[\w)\]]) \+ 1\b", " + 2"), (r"(?<=[\w)\]]) - 1\b", " + 1"),
    (r"(?<=[\w)\]]) \+ (?=[\w(])", " - "), (r"(?<=[\w)\]]) - (?=[\w(])", " + "),
    (r"(?<=[\w)\]]) >> 1\b", " >> 2"), (r"(?<=[\w)\]]) << 1\b", ""),
    (r"\+\+$", "--"), (r"(?<=\s)\+= ", "-= "),
]


def sh(cmd, cwd=None, timeout=900):
    try:
        p = subprocess.run(cmd, shell=True, cwd=cwd, env=ENV, stdout=subprocess.PIPE, stderr=subprocess.STDOUT, timeout=timeout)
        return p.returncode, p.stdout.decode(errors="replace")
    except subprocess.TimeoutExpired:
        return 124, "TIMEOUT"


def points(src):
    """(line index, start, end, replacement) for code lines outside comments/strings (approximate)."""
    out = []
    in_block = False
    for i, line in enumerate(src):
        s = line
        if in_block:
            if "*/" in s:
                in_block = False
            continue
        if s.lstrip().startswith("//"):
            continue
        if "/*" in s and "*/" not in s:
            in_block = True
            continue
        code = s.split("//")[0]
        if '"' in code or "`" in code or "'" in code:
            # keep it simple: only mutate the part before the first quote
            q = min([code.index(c) for c in "\"`'" if c in code])
            code = code[:q]
        if re.match(r"\s*(func|import|package|type|var|const|case|default|return fmt\.Errorf)\b", code) and "if" not in code:
            if not re.match(r"\s*(case)\b", code):
                continue
        for pat, rep in MUTATIONS:
            for m in re.finditer(pat, code.rstrip("\n")):
                out.append((i, m.start(), m.end(), rep))
    return out


def main():
    a = sys.argv[1:]
    k, n = 0, 1
    maxper, seed = 25, 1
    override = None
    files = []
    i = 0
    while i < len(a):
        if a[i] == "--stream":
            k, n = [int(x) for x in a[i + 1].split("/")]; i += 2
        elif a[i] == "--max-per-file":
            maxper = int(a[i + 1]); i += 2
        elif a[i] == "--seed":
            seed = int(a[i + 1]); i += 2
        elif a[i] == "--checks":
            override = a[i + 1].split(","); i += 2
        else:
            files.append(a[i]); i += 1
    scratch = f"/tmp/mut/repo{k}" + os.environ.get("MUT_TAG", "")
    os.makedirs("/tmp/mut", exist_ok=True)
    sh(f"rm -rf {scratch}; mkdir -p {scratch}; rsync -a --exclude .git /repo/ {scratch}/")
    res = open(f"/tmp/mut/results{k}" + os.environ.get("MUT_TAG", "") + ".jsonl", "a")
    rnd = random.Random(seed * 1000 + k)
    files = [f for j, f in enumerate(sorted(files)) if j % n == k]
    for rel in files:
        path = os.path.join(scratch, rel)
        orig = open(path).read()
        src = orig.splitlines(keepends=True)
        pts = points(src)
        rnd.shuffle(pts)
        checks = override or next(c for pre, c in CHECKS if rel.startswith(pre))
        if override and "C08" in override:
            ENV["VERIF_HOSTILE_FAMILY"] = "rle" if rel.startswith("rle/") else ("j2k" if rel.startswith("jpeg2000/") else "jpeg")
        pkg = "./" + os.path.dirname(rel) + "/"
        done = 0
        for (li, s, e, rep) in pts:
            if done >= maxper:
                break
            line = src[li]
            mut = line[:s] + rep + line[e:]
            if mut == line:
                continue
            open(path, "w").write("".join(src[:li] + [mut] + src[li + 1:]))
            rc, o = sh(f"go build {pkg} && go vet {pkg} 2>&1 | grep -v '^#' | head -3", cwd=scratch, timeout=300)
            if rc != 0 or "declared and not used" in o:
                open(path, "w").write(orig)
                continue
            done += 1
            rec = {"file": rel, "line": li + 1, "orig": line.strip()[:160], "mut": mut.strip()[:160], "checks": {}}
            t0 = time.time()
            killed = None
            for c in checks:
                rc, o = sh(f"VERIF_REPO={scratch} ./check.sh {c} quick", cwd="/verif", timeout=1200)
                viol = [l for l in o.splitlines() if l.startswith("VIOLATION")]
                if rc == 1 and viol:
                    killed = c
                    rec["checks"][c] = viol[0][:200]
                    break
                rec["checks"][c] = f"exit {rc}" + (" " + o[-200:].replace("\n", " ") if rc not in (0, 1) else "")
            rec["killed_by"] = killed
            rec["check_s"] = round(time.time() - t0, 1)
            if not killed:
                rc, o = sh(f"go test -count=1 {pkg} 2>&1 | tail -5", cwd=scratch, timeout=900)
                rec["pkg_tests"] = "fail" if ("FAIL" in o or "panic" in o or rc == 124) else "pass"
            res.write(json.dumps(rec) + "\n"); res.flush()
            print(f"[{k}] {rel}:{li+1} {'killed by ' + killed if killed else 'SURVIVED checks; pkg tests ' + rec.get('pkg_tests','?')} | {line.strip()[:70]} -> {mut.strip()[:70]}", flush=True)
            open(path, "w").write(orig)
        open(path, "w").write(orig)
    tag = re.sub(r"[^A-Za-z0-9]", "_", scratch) + "_"
    sh(f"rm -rf {scratch} /verif/bin/vcheck{tag} /verif/.scratch/alt{tag}.mod /verif/.scratch/alt{tag}.sum /verif/.scratch/out{tag}")


if __name__ == "__main__":
    main()
