#!/bin/bash
# development aid: run ONE registered check against ONE seeded change (any property's check)
# usage: tools/seedrun.sh <seeded-id> [<Cxx>] [tier]     scratch worktree /tmp/sw/x_<id>_<Cxx>, removed afterwards
cd "$(dirname "$0")/.."; . ./env.sh
SID=$1; P=${2:-${SID:0:3}}; TIER=${3:-quick}
WT=/tmp/sw/x_${SID}_$P; TAG=$(echo "$WT" | tr -c 'A-Za-z0-9' '_')
mkdir -p /tmp/sw
git -C /repo worktree remove --force $WT >/dev/null 2>&1
git -C /repo worktree add --detach $WT HEAD >/dev/null 2>&1 || exit 2
(cd $WT && (git apply /verif/seeded/$SID/patch.diff || git apply --3way /verif/seeded/$SID/patch.diff)) || { echo patch-does-not-apply; exit 2; }
VERIF_REPO=$WT ./check.sh $P $TIER 2>&1 | grep -E "^(VIOLATION|KNOWN|HARNESS|\[C..\] done)" | cut -c1-${COLS:-300} | head -${LINES_MAX:-6}
git -C /repo worktree remove --force $WT
rm -rf bin/vcheck$TAG bin/vcheck-race$TAG .scratch/alt$TAG.mod .scratch/alt$TAG.sum .scratch/c18$TAG.mod .scratch/c18$TAG.sum .scratch/out$TAG
