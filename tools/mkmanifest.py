#!/usr/bin/env python3
"""Regenerates /verif/MANIFEST.json from the table below (keeps it valid at all times)."""
import json, os, subprocess, sys

ROOT = os.path.dirname(os.path.dirname(os.path.abspath(__file__)))

# id -> (technique, level text, level note, design ref)
CHECKS = {
 "C01": ("runtime monitor: library round trip + independent Annex G/PackBits reference reader over executed frames (complete execution of small frame spaces, structured run/literal generators, seeded random geometries)",
         "Held on every executed frame: all frames up to 12 bytes over {00,01,FF} for each of the 12 plane layouts executed completely, plus run/literal structures around the 2/3 and 127/128/129/256 boundaries, random geometries up to 1024x1024 and 65535x1 / 1x65535. Says nothing about frames not executed.",
         "Trusted: internal/ref/rle.go (independent reader, self-tested in the prelude against hand-built Annex G streams); the harness PixelData.", "3/C01"),
 "C02": ("runtime monitor: encode->decode round trip oracle over executed images (complete execution of small image spaces at P=2..4 for every selector, all two-sample difference pairs, seeded cell sweep P x components x selector x content class)",
         "Held on every executed image: complete small-geometry spaces at low precision for predictors 0..7 and SV1, every difference value through the category coder, seeded sweeps of all 270 (P, components, selector) cells with hostile content (alternating extremes, noise), 65535x1 and 1x65535. Says nothing about images not executed.",
         "Self round trip (library encoder vs library decoder); conformance to T.81 is C13's business.", "3/C02"),
 "C03": ("runtime monitor: encode->decode round trip oracle over executed images (complete execution of small image spaces, seeded cell sweep P x components x content class, RESET-sized and 65535-long images)",
         "Held on every executed image; all 30 (P, components) cells visited with every content class each run; complete small spaces at P=2..4.",
         "Self round trip; conformance to T.87 is C14's business.", "3/C03"),
 "C07": ("runtime monitor: per-sample |decoded-source|<=NEAR oracle over executed images, every NEAR value of every precision visited",
         "Held on every executed (P, NEAR, image): every NEAR in 0..min(255,MAXVAL/2) for the precisions listed in the evidence (all 15 in the thorough tier), contents aimed at the clamp, the run/regular boundary and run interruption.",
         "Self round trip; the oracle needs nothing but the source and decoded samples.", "3/C07"),
 "C20": ("runtime monitor: encoder->decoder identity oracles on the exported MQ / T1 / 5-3 DWT / RCT layers (complete execution of short MQ sequences and short DWT signals, seeded sweeps of 64 T1 styles x block shapes)",
         "Held on every executed input: all (bit,context) sequences up to length 8 (quick) / 16 (thorough) over two contexts, random and adversarial MQ sequences up to 1e5 symbols, all 64 code-block styles x block shapes x orientations through EncodeLayered/DecodeLayeredWithMode, all 1-D 5/3 signals up to length 7/8 over {-2..2} for both parities, 2-D multilevel transforms with origin parity, RCT on [-8..8]^3 and random triples. One known finding (LAZY without TERMALL).",
         "Round trip only; the T1 decoder is driven the way jpeg2000/t2/tile_decoder.go drives it, with PassData.Rate as cumulative pass lengths.", "3/C20"),
 "C04": ("runtime monitor: reversible single-tile encode->decode round trip oracle over executed (image, configuration) pairs: pairwise-style sweep of 10 configuration parameters on noise, size grids, code-block-boundary sizes, degenerate contents",
         "Held on every executed configuration and image; reaches the ~1/256-per-packet coincidences (header ending in 0xFF, Lblock growth, empty bands) only through the number of noisy packets executed, which the evidence reports.",
         "Self round trip through jpeg2000.Encoder / jpeg2000.Decoder.", "3/C04"),
 "C19": ("runtime monitor: reversible multi-tile encode->decode round trip oracle over executed tile grids (every grid shape 1..8 x 1..8 with odd and even tile sizes, partial last tiles, tiles smaller than a code-block, rate allocation with final lossless layer)",
         "Held on every executed tile grid, geometry and configuration; the witness of a violation names the tile and in-tile position of the first wrong sample.",
         "Self round trip through jpeg2000.Encoder / jpeg2000.Decoder.", "3/C19"),
 "C05": ("runtime monitor: registry .90/.92 Encode->Decode frame-equality oracle over executed (frame description, parameter object) pairs; domain guard evaluated on the generated parameter values",
         "Held on every executed in-domain case: typed, generic and nil parameter objects over the Rate / RateLevels / TargetRatio / NumLayers / PCRD / NumLevels / progression / MCT space, every width 1..40 against heights 1..80 in the thorough tier, sizes to 600.",
         "Self round trip through the registered codec instances and the harness PixelData.", "3/C05"),
 "C06": ("runtime monitor: registry .201/.202 Encode->Decode frame-equality oracle over executed frames and block/level parameters, plus complete execution of the finite set of third-party lossless fixtures against their raw sources",
         "Held on every executed frame; the 14 third-party OpenJPH/fo-dicom lossless codestreams are decoded and compared with their input.raw on every run (finite set, exhaustive).",
         "Self round trip; fixtures and manifest under /repo/test-data/htj2k/interop are trusted as labelled.", "3/C06"),
 "C10": ("runtime monitor over recorded call histories: the harness PixelData logs every GetFrame/AddFrame; per-call model = a fresh solo call (registry codecs) or a fresh object (jpeg2000.Encoder/Decoder); canary-capacity buffers detect writes into caller memory",
         "Held on every executed history: for all 14 registered syntaxes frame sequences of length 1..8 (random, permutation, sub-sequence, repeat, alternate) with 1:1/ordered/independent/deterministic/unmodified-input/length/lossless oracles, plus jpeg2000.Encoder histories over 11 parameter kinds and jpeg2000.Decoder histories over 9 stream kinds (with/without colour transform, custom MCT markers, MCT bindings, ROI COM marker). One known finding (BitsAllocated=16 with BitsStored<=8).",
         "The model of frame independence is the same library run on one frame by a fresh call/object; a defect that makes every call wrong in the same way is C01-C07's business.", "3/C10"),
 "C11": ("runtime monitor: per-sample error oracle against the bound computed from the DQT tables that an independent strict T.81 walker reads from the emitted stream; every quality 1..100, every partial-block shape, one image per DCT basis function",
         "Held on every executed (image, quality, codec mode): baseline 8-bit grey/RGB, extended 8-bit grey/RGB and 12-bit grey; the matching decoder accepted every stream the encoder returned.",
         "Trusted: internal/ref/jpegwalk.go (marker walker), the JFIF inverse colour matrix; the bound is the property's own (loose at low quality by construction).", "3/C11"),
 "C12": ("runtime monitor: per-sample error oracle against the bound computed from the QCD step sizes (independent 15444-1 walker) propagated through an independent float64 9/7 synthesis (exact impulse gains up to 4096 samples, absolute-lifting upper bound above) and |ICT^-1|",
         "Held on every executed (image, configuration): every quality 1..100, NumLevels 0..6, P in {8,12,16}, signed/unsigned, 1/3 components, sizes to 512. One known finding (int32 overflow of the quantiser at very fine steps).",
         "Trusted: internal/ref/j2kwalk.go and dwt97.go (self-validated in the prelude: perfect reconstruction, conservative >= exact gains); allowance fixed in DESIGN.md before the check existed.", "3/C12"),
 "C13": ("runtime monitor: differential execution against an independent T.81 Annex H lossless encoder and decoder (internal/ref/t81lossless.go) in both directions over executed images and stream layouts",
         "Held on every executed case: (A) library streams for predictors 1..7, auto and SV1 decoded by the reference to the source with matching header fields; (B) reference streams over predictor x precision x components x table destinations 0..3 x table kinds (Annex K extended, K.2 optimal, random canonical up to 16-bit codes) x DHT placement x APPn/COM x component ids decoded by the library to the source.",
         "Trusted: the reference codec (validated in the prelude against itself, the H.1.2.1 rules on a hand-computed case, and the strict marker walker). A misreading of T.81 shared by reference and library is out of reach.", "3/C13"),
 "C14": ("runtime monitor: differential execution against an independent T.87 decoder (internal/ref/t87.go, default parameters, ILV 0 and 2), byte-equality of the two encoders at NEAR=0, cross-package decoding, and the Annex H.3 vector",
         "Held on every executed image: P 2..16, components 1/3, NEAR 0 and a spread up to the maximum, all content classes, complete small-image spaces at NEAR 0 and 1; the reference decoder reports how many regular / run / interruption samples, escape codes, context resets, bias saturations and modulo corrections it went through.",
         "Trusted: the reference decoder, pinned by the H.3 vector; see the honesty note in DESIGN appendix A.3. lossless.Decode on NEAR>0 streams is recorded, not judged.", "3/C14"),
 "C15": ("runtime monitor: differential execution against Go's image/jpeg (decoder and encoder) and an independent baseline encoder (internal/ref/baselineenc.go: 4:4:4/4:2:2/4:2:0/4:4:0, Annex K or optimised tables, DRI/RSTn, JFIF/Adobe)",
         "Held on every executed stream: (A) library 8-bit streams accepted by image/jpeg and reconstructed within 2 (grey) / 6 (RGB) of the library decoder; (B) independent streams decoded by baseline.Decode and extended.Decode within the same tolerance of image/jpeg and tightly packed. Every size 1..33 x 1..33 in the thorough tier.",
         "Trusted: image/jpeg; the reference encoder's streams must be accepted by image/jpeg and the strict walker or the case is inconclusive.", "3/C15"),
 "C16": ("runtime monitor: independent strict marker walkers (T.81/T.87, 15444-1, Annex G) over the bytes returned by every encoder; header fields compared with the encoder's arguments; lossless and JPEG-LS scans consumed by the reference decoders",
         "Held on every executed stream of every encoder family (baseline, extended 8/12, lossless 0..7, SV1, JPEG-LS lossless/near, JPEG 2000 reversible/irreversible/tiled/layered/all progressions/precincts, HTJ2K lossless/lossy, RLE) on noise content, incl. 65535x1 / 1x65535 and tile grids to 8x8; the evidence counts the 0xFF bytes seen inside entropy-coded data.",
         "Trusted: the walkers.", "3/C16"),
 "C08": ("runtime monitor in resource-limited child processes: recover() + child exit status around every decoding entry point fed with truncations, header byte sweeps, 16/32-bit field edits, havoc mutations and a behaviour-signature feedback loop over a corpus of valid streams of every codec",
         "Held on every executed (input, entry point) call - about 2.9 million calls per quick run: no Go panic and no fatal runtime error other than out-of-memory. Says nothing about inputs not generated; feedback is by behaviour signature, not branch coverage.",
         "Children run under RLIMIT_AS 3 GiB and a 64 MiB stack limit; a death is attributed to the input recorded with a completed write before the call. Inputs declaring more than 2^22 samples are not executed.", "3/C08"),
 "C09": ("runtime monitor in resource-limited child processes: per-call thread CPU time (getrusage RUSAGE_THREAD), allocated-bytes delta (runtime/metrics), 1 ms live-heap sampler, RLIMIT_AS kill switch and a 90 s watchdog, over the C08 generators; declared image size parsed by an independent header reader",
         "Held on every executed in-domain call (input <= 64 KiB declaring S <= 2^22 samples): CPU time <= 10 s and allocation <= 512 MiB + 64*S; three-valued verdict (wall > 10 s with CPU below, or TotalAlloc above budget without a live-heap sample above it, is inconclusive and counted).",
         "Thread CPU time is a lower bound of the call's wall time; TotalAlloc delta is an upper bound of its peak.", "3/C09"),
 "C17": ("runtime monitor in child processes: every Encode entry point called with the cross product of argument value sets around each documented limit and buffer-length classes; recover()/exit-status oracle, required-error oracle for documented-invalid arguments, and decode-back geometry oracle for every returned stream",
         "Held on every executed argument tuple (about 110 000 per quick run, the full product in the thorough tier): no panic, an error for every documented-invalid tuple, and every returned stream decodes to the requested geometry; codec-level calls with nil / default / garbage / foreign parameter objects and zero / empty / short / nil inputs.",
         "The list of documented-invalid arguments is read from each Encode's validation code and comments; merely unwise values only get the no-panic and decode-back oracles.", "3/C17"),
 "C18": ("Go race detector over cold child processes running 64-goroutine storms on the shared registry instances (and distinct low-level objects), plus solo-result comparison and quiescent-point digests of all package-level variables (digest code generated with go/parser into a scratch copy) and of the codec instances",
         "Held on every executed storm: GOMAXPROCS in {1,2,4,16} x parameter mode {nil, per call, one shared default object}; zero race reports, every result equal to the same call run alone, no package-level variable or codec field changed between quiescent points; measured overlap is reported and a storm without overlap is inconclusive.",
         "Race reports and digests see executed paths only; the static obligation in the quantifier text is not decided (runtime family).", "3/C18"),
}

NOT_YET = {
}

def main():
    props = [json.loads(l) for l in open(os.path.join(ROOT, "properties.jsonl"))]
    hooks_commits = []
    hc = os.path.join(ROOT, "hook_commits.txt")
    if os.path.exists(hc):
        hooks_commits = [l.split()[0] for l in open(hc) if l.strip() and not l.startswith("#")]
    checks = []
    na = []
    for p in props:
        i = p["id"]
        if i in CHECKS:
            tech, text, note, ref = CHECKS[i]
            checks.append({
                "property_id": i,
                "quick_cmd": "./check.sh %s quick" % i,
                "thorough_cmd": "./check.sh %s thorough" % i,
                "evidence_file": "/verif/evidence/%s.json" % i,
                "replay_cmd_template": "./check.sh %s --replay {path}" % i,
                "engine": "vcheck",
                "level_claimed": {"category": "exploration", "text": text, "design_ref": "DESIGN.md section " + ref},
                "level_note": note,
                "technique": tech,
            })
        else:
            na.append({"property_id": i, "reason": NOT_YET.get(i, "runtime monitor designed in DESIGN.md section 3 but not built yet; not claimed until its check exists and is silent on the unchanged tree")})
    m = {
        "version": 1,
        "setup_cmd": "./setup.sh",
        "hooks": {
            "guard": "verif",
            "enable": "go build -tags verif (check.sh builds bin/vcheck with -tags verif against /repo through the go.mod replace directive)",
            "baseline_off_cmd": "cd /repo && unset GOSUMDB && GOFLAGS=-mod=mod GOPROXY=off GOTOOLCHAIN=go1.25.0 go test -json -vet=off -count=1 -timeout 25m ./...",
            "source_commits": hooks_commits,
            "add_only": True,
        },
        "engines": [{"name": "vcheck", "path": "/verif/cmd/vcheck", "serves_properties": sorted(CHECKS), "kind_free_text": "Go driver executing seeded case lists against the real library (in-process worker pool or resource-limited child processes), oracles in internal/props, independent references in internal/ref"}],
        "checks": checks,
        "notes": "Runtime monitoring only: every verdict is 'held on the executions produced'. known_findings.jsonl lists genuine defects recorded rather than repaired; see DESIGN.md.",
        "not_applicable": na,
    }
    json.dump(m, open(os.path.join(ROOT, "MANIFEST.json"), "w"), indent=1)
    print("MANIFEST.json: %d checks, %d not_applicable" % (len(checks), len(na)))

if __name__ == "__main__":
    main()
