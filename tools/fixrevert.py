#!/usr/bin/env python3
"""Regression of the repaired defects: for every `status:"fixed"` record of known_findings.jsonl,
revert that `fix:` commit on a scratch worktree of /repo HEAD and require the property's own
registered quick check to report a violation there (the defect "returns").

usage: fixrevert.py [--only C04,C19] [--skip C08,C09] [--jobs 3]
Writes tools/fixrevert.json (development aid; not part of any registered command).
"""
import json, os, subprocess, sys, time
from concurrent.futures import ThreadPoolExecutor

ENV = dict(os.environ, GOFLAGS="-mod=mod", GOPROXY="off", GOTOOLCHAIN="go1.25.0")
ENV.pop("GOSUMDB", None)


def sh(cmd, cwd=None, timeout=7200):
    p = subprocess.run(cmd, shell=True, cwd=cwd, env=ENV, stdout=subprocess.PIPE, stderr=subprocess.STDOUT, timeout=timeout)
    return p.returncode, p.stdout.decode(errors="replace")


def one(rec):
    pid, commit = rec["property"], rec["commit"]
    wt = f"/tmp/sw/rev{commit}"
    res = {"property": pid, "commit": commit, "what": rec.get("what", "")[:160]}
    sh(f"git -C /repo worktree remove --force {wt}")
    rc, o = sh(f"git -C /repo worktree add --detach {wt} HEAD")
    if rc != 0:
        res["status"] = "worktree-failed"; res["detail"] = o[-300:]
        return res
    try:
        rc, o = sh(f"git revert --no-commit {commit}", cwd=wt)
        if rc != 0:
            res["status"] = "revert-conflict"; res["detail"] = o[-300:]
            return res
        # the fix commits may carry their own regression tests; only the library must build
        rc, o = sh("go build ./...", cwd=wt)
        if rc != 0:
            res["status"] = "does-not-build"; res["detail"] = o[-300:]
            return res
        t0 = time.time()
        rc, o = sh(f"VERIF_REPO={wt} ./check.sh {pid} quick", cwd="/verif")
        viol = [l for l in o.splitlines() if l.startswith("VIOLATION")]
        res.update(exit=rc, wall_s=round(time.time() - t0, 1), violations=len(viol), first=viol[0][:300] if viol else "", tail=o[-300:] if not viol else "")
        res["status"] = "detected" if rc == 1 and viol else "MISSED"
        return res
    finally:
        sh(f"git -C /repo worktree remove --force {wt}")
        tag = wt.replace("/", "_") + "_"
        sh(f"rm -rf /verif/bin/vcheck{tag} /verif/bin/vcheck-race{tag} /verif/.scratch/alt{tag}.mod /verif/.scratch/alt{tag}.sum /verif/.scratch/c18{tag}.mod /verif/.scratch/c18{tag}.sum /verif/.scratch/out{tag}")


def main():
    only = skip = None
    jobs = 3
    a = sys.argv[1:]
    if "--only" in a: only = a[a.index("--only") + 1].split(",")
    if "--skip" in a: skip = a[a.index("--skip") + 1].split(",")
    if "--jobs" in a: jobs = int(a[a.index("--jobs") + 1])
    recs = [json.loads(l) for l in open("/verif/known_findings.jsonl") if l.strip()]
    recs = [r for r in recs if r.get("status") == "fixed" and (not only or r["property"] in only) and (not skip or r["property"] not in skip)]
    os.makedirs("/tmp/sw", exist_ok=True)
    out = []
    with ThreadPoolExecutor(jobs) as ex:
        for r in ex.map(one, recs):
            print(r["property"], r["commit"], r["status"], r.get("wall_s", ""), r.get("first", "")[:160] or r.get("detail", "")[:160], flush=True)
            out.append(r)
    prev = []
    try:
        prev = json.load(open("/verif/tools/fixrevert.json"))
    except Exception:
        pass
    done = {r["commit"] for r in out}
    json.dump([p for p in prev if p["commit"] not in done] + out, open("/verif/tools/fixrevert.json", "w"), indent=1)


if __name__ == "__main__":
    main()
