#!/usr/bin/env python3
"""Reads 'DUMP {json}' lines on stdin and prints a histogram over the given flat fields."""
import sys, json, collections
fields = sys.argv[1:]
h = collections.Counter()
for l in sys.stdin:
    if not l.startswith('DUMP'):
        if not l.startswith('VIOLATION'):
            print(l.rstrip()[:400])
        continue
    d = json.loads(l[5:]); f = d['flat']
    h[(d['class'][:70],) + tuple(f.get(x) for x in fields)] += 1
for k, v in sorted(h.items(), key=str):
    print(k, v)
