#!/usr/bin/env python3
"""Validates one seeded change and runs the property's check against it.

usage: seedtest.py <ID> <variant> [--no-suite] [--tier quick]
  source:  /tmp/seed/<ID>/_out/<variant>/{patch.diff, demo_test.go | demo/main.go, README.md}
  scratch: /tmp/sw/<ID><variant>   (git worktree of /repo HEAD, removed afterwards)
  result:  /verif/seeded/<ID><variant>/{patch.diff, demo..., meta.json}

Steps (all in the scratch worktree, never in /repo):
  1. patch applies to the current tree (plain or 3-way)
  2. with the patch: library builds, demonstration FAILS, full test suite PASSES
  3. without the patch: demonstration PASSES
  4. ./check.sh <ID> quick with VERIF_REPO=<scratch>  -> detected iff exit 1 + VIOLATION line
"""
import json, os, shutil, subprocess, sys, time

ENV = dict(os.environ, GOFLAGS="-mod=mod", GOPROXY="off", GOTOOLCHAIN="go1.25.0")
ENV.pop("GOSUMDB", None)

DEMO_PKG = {"C01": "rle", "C03": "jpegls/lossless", "C04": "jpeg2000", "C13": "jpeg/lossless", "C19": "jpeg2000",
            "C02": "jpeg/lossless", "C06": "jpeg2000/htj2k", "C14": "jpegls/lossless", "C17a": "jpegls/lossless", "C17b": "rle"}

def sh(cmd, cwd=None, timeout=3600):
    p = subprocess.run(cmd, shell=True, cwd=cwd, env=ENV, stdout=subprocess.PIPE, stderr=subprocess.STDOUT, timeout=timeout)
    return p.returncode, p.stdout.decode(errors="replace")

def main():
    pid, var = sys.argv[1], sys.argv[2]
    tier = "quick"
    if "--tier" in sys.argv:
        tier = sys.argv[sys.argv.index("--tier") + 1]
    src = f"/tmp/seed/{pid}/_out/{var}"
    if len(sys.argv) > 3 and not sys.argv[3].startswith("--"):
        src = sys.argv[3]
    wt = f"/tmp/sw/{pid}{var}"
    out = f"/verif/seeded/{pid}{var}"
    os.makedirs("/tmp/sw", exist_ok=True)
    sh(f"git -C /repo worktree remove --force {wt}")
    rc, o = sh(f"git -C /repo worktree add --detach {wt} HEAD")
    if rc != 0:
        print(o); sys.exit(2)
    meta = {"id": f"{pid}{var}", "breaks": pid, "base_commit": sh("git -C /repo rev-parse --short HEAD")[1].strip(), "ran": []}
    try:
        readme = open(f"{src}/README.md").read() if os.path.exists(f"{src}/README.md") else ""
        meta["needs_to_manifest"] = readme[:1500]
        patch = f"{src}/patch.diff"
        rc, o = sh(f"git apply --check {patch}", cwd=wt)
        how = "git apply"
        if rc != 0:
            rc, o = sh(f"git apply --3way {patch}", cwd=wt)
            how = "git apply --3way"
            if rc != 0:
                meta["status"] = "patch-does-not-apply"; meta["detail"] = o[-800:]
                return finish(meta, out, src, wt, None)
            sh(f"git diff HEAD > /tmp/sw/rebased_{pid}{var}.diff", cwd=wt)
            sh("git reset -q && git checkout -- .", cwd=wt)
            patch = f"/tmp/sw/rebased_{pid}{var}.diff"
        else:
            pass
        meta["ran"].append(f"{how}: ok")
        # demo placement
        demo_cmd = None
        if os.path.exists(f"{src}/demo_test.go"):
            pkg = DEMO_PKG.get(pid + var) or DEMO_PKG.get(pid)
            for line in readme.splitlines():
                pass
            shutil.copy(f"{src}/demo_test.go", f"{wt}/{pkg}/zz_seed_demo_test.go")
            demo_cmd = f"go test -count=1 -run 'Seed|Demo|C[0-9][0-9]' ./{pkg}/"
            # run only tests defined in the demo file
            names = [l.split("(")[0].replace("func ", "").strip() for l in open(f"{src}/demo_test.go") if l.startswith("func Test")]
            demo_cmd = f"go test -count=1 -run '^({'|'.join(names)})$' ./{pkg}/"
        else:
            shutil.copytree(f"{src}/demo", f"{wt}/zz_seed_demo")
            demo_cmd = "go run -race ./zz_seed_demo" if pid == "C18" else "go run ./zz_seed_demo"
        # 3. without the patch
        rc0, o0 = sh(demo_cmd, cwd=wt)
        meta["ran"].append(f"demo without change: exit {rc0}")
        # 2. with the patch
        rc, o = sh(f"git apply {patch}", cwd=wt)
        if rc != 0:
            meta["status"] = "patch-apply-failed"; meta["detail"] = o[-500:]
            return finish(meta, out, src, wt, patch)
        rcb, ob = sh("go build ./...", cwd=wt)
        rc1, o1 = sh(demo_cmd, cwd=wt)
        meta["ran"].append(f"demo with change: exit {rc1}")
        suite = "skipped"
        if "--no-suite" not in sys.argv:
            # the demo file must not count as part of the existing suite
            rcs, os_ = sh("go test -count=1 ./... 2>&1 | grep -v zz_seed | grep -E '^(FAIL|---|panic)' | head -20", cwd=wt)
            rcs2, osum = sh("go test -count=1 ./... 2>&1 | grep -c '^ok'", cwd=wt) if False else (0, "")
            # run the suite without the demo file
            demo_file = f"{wt}/{DEMO_PKG.get(pid + var) or DEMO_PKG.get(pid)}/zz_seed_demo_test.go"
            hidden = False
            if os.path.exists(demo_file):
                os.rename(demo_file, demo_file + ".hide"); hidden = True
            rcs, os_ = sh("go test -count=1 ./... 2>&1 | grep -E '^(FAIL|--- FAIL|panic)' | head -20", cwd=wt)
            if hidden:
                os.rename(demo_file + ".hide", demo_file)
            suite = "pass" if os_.strip() == "" and rcb == 0 else "FAIL: " + os_[:400]
        meta["ran"].append(f"go build with change: exit {rcb}; existing suite with change: {suite}")
        valid = rcb == 0 and rc0 == 0 and rc1 != 0 and (suite in ("pass", "skipped"))
        meta["valid"] = valid
        if not valid:
            meta["status"] = "not-a-valid-seeded-change"
            meta["detail"] = {"demo_without": o0[-600:], "demo_with": o1[-600:]}
            return finish(meta, out, src, wt, patch)
        # 4. the check
        # remove demo artefacts from the tree the harness builds against
        for f in (f"{wt}/{DEMO_PKG.get(pid + var) or DEMO_PKG.get(pid)}/zz_seed_demo_test.go",):
            if os.path.exists(f):
                os.remove(f)
        shutil.rmtree(f"{wt}/zz_seed_demo", ignore_errors=True)
        t0 = time.time()
        rc, o = sh(f"VERIF_REPO={wt} ./check.sh {pid} {tier}", cwd="/verif", timeout=7200)
        viol = [l for l in o.splitlines() if l.startswith("VIOLATION")]
        meta["check"] = {"cmd": f"./check.sh {pid} {tier} (against the scratch worktree with the change applied)", "exit": rc, "wall_s": round(time.time() - t0, 1),
                         "violations": len(viol), "first": viol[0][:400] if viol else "", "tail": o[-600:]}
        meta["detected"] = rc == 1 and len(viol) > 0
        meta["status"] = "detected" if meta["detected"] else "MISSED"
        return finish(meta, out, src, wt, patch)
    finally:
        sh(f"git -C /repo worktree remove --force {wt}")
        tag = wt.replace("/", "_") + "_"
        sh(f"rm -f /verif/bin/vcheck{tag} /verif/bin/vcheck-race{tag} /verif/.scratch/alt{tag}.mod /verif/.scratch/alt{tag}.sum /verif/.scratch/c18{tag}.mod /verif/.scratch/c18{tag}.sum")

def finish(meta, out, src, wt, patch):
    os.makedirs(out, exist_ok=True)
    # a re-run with --no-suite keeps the suite verdict of the earlier full run
    try:
        prev = json.load(open(f"{out}/meta.json"))
        for r in prev.get("ran", []):
            if "existing suite with change: pass" in r:
                meta["ran"] = [x.replace("existing suite with change: skipped", "existing suite with change: pass (verified in an earlier run of this script)") for x in meta["ran"]]
        if prev.get("check") and prev.get("status") == "MISSED" and meta.get("status") == "detected":
            meta["history"] = prev.get("history", []) + [{"status": "MISSED", "check": prev["check"].get("cmd"), "note": "missed before the check was strengthened"}]
        elif prev.get("history"):
            meta["history"] = prev["history"]
    except Exception:
        pass
    if patch and os.path.exists(patch):
        shutil.copy(patch, f"{out}/patch.diff")
    elif os.path.exists(f"{src}/patch.diff"):
        shutil.copy(f"{src}/patch.diff", f"{out}/patch.diff")
    if os.path.exists(f"{src}/demo_test.go"):
        shutil.copy(f"{src}/demo_test.go", f"{out}/demo_test.go")
    if os.path.isdir(f"{src}/demo"):
        shutil.rmtree(f"{out}/demo", ignore_errors=True)
        shutil.copytree(f"{src}/demo", f"{out}/demo")
    if os.path.exists(f"{src}/README.md"):
        shutil.copy(f"{src}/README.md", f"{out}/README.md")
    json.dump(meta, open(f"{out}/meta.json", "w"), indent=1)
    print(meta["id"], meta.get("status"), "|", "; ".join(meta["ran"]), "|", (meta.get("check") or {}).get("first", "")[:200])

if __name__ == "__main__":
    main()
