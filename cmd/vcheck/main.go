// vcheck is the driver of the runtime-monitoring checks.
//
//	vcheck run <Cxx> [quick|thorough]
//	vcheck replay <Cxx> <file>
//	vcheck worker <Cxx> <casefile> <shard> <nshards> <startpos> <log>   (internal)
//	vcheck list
package main

import (
	"fmt"
	"os"
	"sort"
	"strconv"

	"verif/internal/mon"
	"verif/internal/props"
)

func seed() uint64 {
	if s := os.Getenv("VERIF_SEED"); s != "" {
		if v, err := strconv.ParseUint(s, 10, 64); err == nil {
			return v
		}
		if v, err := strconv.ParseInt(s, 10, 64); err == nil {
			return uint64(v)
		}
	}
	return 1
}

func main() {
	if r := os.Getenv("VERIF_ROOT"); r != "" {
		mon.Root = r
	}
	exe, err := os.Executable()
	if err == nil {
		mon.Self = exe
	}
	if len(os.Args) < 2 {
		fmt.Fprintln(os.Stderr, "usage: vcheck run|replay|list ...")
		os.Exit(2)
	}
	switch os.Args[1] {
	case "list":
		ids := []string{}
		for id := range props.All {
			ids = append(ids, id)
		}
		sort.Strings(ids)
		for _, id := range ids {
			fmt.Println(id)
		}
	case "run":
		if len(os.Args) < 3 {
			os.Exit(2)
		}
		p, ok := props.All[os.Args[2]]
		if !ok {
			fmt.Printf("HARNESS-ERROR unknown property %s\n", os.Args[2])
			os.Exit(2)
		}
		tier := os.Getenv("VERIF_TIER")
		if len(os.Args) > 3 {
			tier = os.Args[3]
		}
		if tier != "thorough" {
			tier = "quick"
		}
		w := 0
		if s := os.Getenv("VERIF_WORKERS"); s != "" {
			w, _ = strconv.Atoi(s)
		}
		os.Exit(mon.Run(p, mon.Options{Tier: tier, Seed: seed(), Workers: w}))
	case "replay":
		if len(os.Args) < 4 {
			os.Exit(2)
		}
		p, ok := props.All[os.Args[2]]
		if !ok {
			os.Exit(2)
		}
		os.Exit(mon.RunReplay(p, os.Args[3]))
	case "worker":
		if len(os.Args) < 8 {
			os.Exit(2)
		}
		p, ok := props.All[os.Args[2]]
		if !ok {
			os.Exit(2)
		}
		sh, _ := strconv.Atoi(os.Args[4])
		nsh, _ := strconv.Atoi(os.Args[5])
		sp, _ := strconv.Atoi(os.Args[6])
		os.Exit(mon.WorkerMain(p, os.Args[3], sh, nsh, sp, os.Args[7]))
	default:
		os.Exit(2)
	}
}
