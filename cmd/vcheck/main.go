// vcheck is the driver of the runtime-monitoring checks.
//
//	vcheck run <Cxx> [quick|thorough]
//	vcheck replay <Cxx> <file>
//	vcheck worker <Cxx> <casefile> <shard> <nshards> <startpos> <log>   (internal)
//	vcheck list
package main

import (
	"encoding/json"
	"fmt"
	"github.com/cocosip/go-dicom-codecs/verifhook"
	"os"
	"sort"
	"strconv"
	"strings"

	"verif/internal/mon"
	"verif/internal/props"
)

func seed() uint64 {
	if s := os.Getenv("VERIF_SEED"); s != "" {
		if v, err := strconv.ParseUint(s, 10, 64); err == nil {
			return v
		}
		if v, err := strconv.ParseInt(s, 10, 64); err == nil {
			return uint64(v)
		}
	}
	return 1
}

func vary(p mon.Property, path string, specs []string) int {
	rp, err := mon.LoadReplay(path)
	if err != nil {
		fmt.Println(err)
		return 2
	}
	run := func(label string, m map[string]any) {
		b, _ := json.Marshal(m)
		d, err := p.Decode(b)
		if err != nil {
			fmt.Println(label, "decode:", err)
			return
		}
		r := mon.SafeExec(p, d)
		msg := r.Msg
		if len(msg) > 110 {
			msg = msg[:110]
		}
		fmt.Printf("%-28s %-12s %s %s\n", label, r.V, r.Class, msg)
	}
	var base map[string]any
	dec := json.NewDecoder(strings.NewReader(string(rp.Desc)))
	dec.UseNumber()
	if err := dec.Decode(&base); err != nil {
		fmt.Println(err)
		return 2
	}
	run("base", base)
	for _, sp := range specs {
		kv := strings.SplitN(sp, "=", 2)
		if len(kv) != 2 {
			continue
		}
		for _, v := range strings.Split(kv[1], ",") {
			m := map[string]any{}
			for k, x := range base {
				m[k] = x
			}
			var val any
			if err := json.Unmarshal([]byte(v), &val); err != nil {
				val = v
			}
			if _, isF := val.(float64); isF {
				val = json.Number(v)
			}
			m[kv[0]] = val
			run(kv[0]+"="+v, m)
		}
	}
	return 0
}

func main() {
	if r := os.Getenv("VERIF_ROOT"); r != "" {
		mon.Root = r
	} else if wd, err := os.Getwd(); err == nil {
		// the checks run from the verif directory (check.sh cds into it); a
		// snapshot copy therefore reads and writes its own files
		if _, err := os.Stat(wd + "/known_findings.jsonl"); err == nil {
			mon.Root = wd
		}
	}
	exe, err := os.Executable()
	if err == nil {
		mon.Self = exe
	}
	if len(os.Args) < 2 {
		fmt.Fprintln(os.Stderr, "usage: vcheck run|replay|list ...")
		os.Exit(2)
	}
	switch os.Args[1] {
	case "cases": // vcheck cases <Cxx> <tier>: prints the descriptors of the run's case list (coverage audit)
		p, ok := props.All[os.Args[2]]
		if !ok {
			os.Exit(2)
		}
		seed := uint64(1)
		if v, err := strconv.ParseUint(os.Getenv("VERIF_SEED"), 10, 64); err == nil {
			seed = v
		}
		for _, c := range p.Build(os.Args[3], seed) {
			b, _ := json.Marshal(c)
			fmt.Println(string(b))
		}
	case "hunt": // development aid: vcheck hunt <Cxx> <tier> <hook event> [gen]: runs the tier's cases serially and prints those that hit the verifhook event
		p, ok := props.All[os.Args[2]]
		if !ok {
			os.Exit(2)
		}
		want := ""
		if len(os.Args) > 5 {
			want = "\"gen\":\"" + os.Args[5] + "\""
		}
		for _, c := range p.Build(os.Args[3], seed()) {
			b, _ := json.Marshal(c)
			if want != "" && !strings.Contains(string(b), want) {
				continue
			}
			before := verifhook.Snapshot()[os.Args[4]]
			r := mon.SafeExec(p, c)
			if n := verifhook.Snapshot()[os.Args[4]] - before; n > 0 {
				fmt.Printf("%d %s %s\n", n, r.V, string(b))
			}
		}
	case "dumpseed":
		props.DumpSeed(os.Args[2], os.Args[3])
	case "seeds": // development aid: what every entry point answers on every valid hostile seed
		props.SeedReport()
	case "list":
		ids := []string{}
		for id := range props.All {
			ids = append(ids, id)
		}
		sort.Strings(ids)
		for _, id := range ids {
			fmt.Println(id)
		}
	case "run":
		if len(os.Args) < 3 {
			os.Exit(2)
		}
		p, ok := props.All[os.Args[2]]
		if !ok {
			fmt.Printf("HARNESS-ERROR unknown property %s\n", os.Args[2])
			os.Exit(2)
		}
		tier := os.Getenv("VERIF_TIER")
		if len(os.Args) > 3 {
			tier = os.Args[3]
		}
		if tier != "thorough" {
			tier = "quick"
		}
		w := 0
		if s := os.Getenv("VERIF_WORKERS"); s != "" {
			w, _ = strconv.Atoi(s)
		}
		os.Exit(mon.Run(p, mon.Options{Tier: tier, Seed: seed(), Workers: w}))
	case "replay":
		if len(os.Args) < 4 {
			os.Exit(2)
		}
		p, ok := props.All[os.Args[2]]
		if !ok {
			os.Exit(2)
		}
		os.Exit(mon.RunReplay(p, os.Args[3]))
	case "vary":
		// vcheck vary <Cxx> <replay> field=v1,v2,... [field2=...]: re-executes
		// the stored case with one field substituted at a time (triage aid)
		p, ok := props.All[os.Args[2]]
		if !ok {
			os.Exit(2)
		}
		os.Exit(vary(p, os.Args[3], os.Args[4:]))
	case "storm":
		os.Exit(props.StormMain(os.Args[2]))
	case "worker":
		if len(os.Args) < 8 {
			os.Exit(2)
		}
		p, ok := props.All[os.Args[2]]
		if !ok {
			os.Exit(2)
		}
		sh, _ := strconv.Atoi(os.Args[4])
		nsh, _ := strconv.Atoi(os.Args[5])
		sp, _ := strconv.Atoi(os.Args[6])
		os.Exit(mon.WorkerMain(p, os.Args[3], sh, nsh, sp, os.Args[7]))
	default:
		os.Exit(2)
	}
}
