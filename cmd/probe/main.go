package main

import (
	"encoding/base64"
	"encoding/json"
	"fmt"
	"os"

	"verif/internal/mon"
)

func main() {
	for _, f := range os.Args[1:] {
		rp, _ := mon.LoadReplay(f)
		var c struct{ Data string }
		json.Unmarshal(rp.Desc, &c)
		d, _ := base64.StdEncoding.DecodeString(c.Data)
		fmt.Printf("== %s len=%d\n", f, len(d))
		for i := 0; i+9 < len(d); i++ {
			if d[i] == 0xFF && (d[i+1] >= 0xC0 && d[i+1] <= 0xC3 || d[i+1] == 0xF7) {
				fmt.Printf("  SOF@%d marker=%02X L=%d P=%d H=%d W=%d Nf=%d comps=%x\n", i, d[i+1], int(d[i+2])<<8|int(d[i+3]), d[i+4], int(d[i+5])<<8|int(d[i+6]), int(d[i+7])<<8|int(d[i+8]), d[i+9], d[i+10:min(i+19, len(d))])
			}
		}
	}
}
