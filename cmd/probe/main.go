package main

import (
	"fmt"

	"github.com/cocosip/go-dicom-codecs/jpeg2000"
)

func main() {
	for _, bd := range []int{8, 16} {
		for _, lv := range []int{0, 1, 2, 5} {
			q := jpeg2000.CalculateOpenJPHQuantizationParams(lv, bd, true)
			fmt.Printf("bd=%d levels=%d guard=%d exps=", bd, lv, q.GuardBits)
			for _, s := range q.EncodedSteps {
				fmt.Printf("%d ", s>>3)
			}
			fmt.Println()
		}
	}
}
