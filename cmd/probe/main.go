package main

import (
	"encoding/base64"
	"encoding/json"
	"fmt"
	"os"

	"verif/internal/mon"
	"verif/internal/ref"
)

func main() {
	for _, f := range os.Args[1:] {
		rp, err := mon.LoadReplay(f)
		if err != nil {
			panic(err)
		}
		var c struct {
			Entry string
			Data  string
			FI    []int
		}
		json.Unmarshal(rp.Desc, &c)
		d, _ := base64.StdEncoding.DecodeString(c.Data)
		fmt.Printf("== %s class=%s entry=%s len=%d fi=%v\n", f, rp.Class, c.Entry, len(d), c.FI)
		if inf, err := ref.WalkJ2K(d); inf != nil {
			fmt.Printf("   walk err=%v SIZ=%+v\n   COD=%+v\n   QCD=%+v tileparts=%d\n", err, inf.SIZ, inf.COD, inf.QCD, len(inf.TileParts))
		}
	}
}
