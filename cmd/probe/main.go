package main

import (
	"bytes"
	"fmt"

	"github.com/cocosip/go-dicom-codecs/jpeg2000"
	"verif/internal/gen"
)

func rt(w, h, tw, th, c, p, levels, layers, cb int, mct bool, seed uint64) string {
	s := gen.Content(gen.New(seed), "noise", w, h, c, p, 0)
	px := gen.Pack(s, p)
	pr := jpeg2000.DefaultEncodeParams(w, h, c, p, false)
	pr.NumLevels = levels
	pr.NumLayers = layers
	pr.EnableMCT = mct
	pr.TileWidth, pr.TileHeight = tw, th
	pr.CodeBlockWidth, pr.CodeBlockHeight = cb, cb
	cs, err := jpeg2000.NewEncoder(pr).Encode(px)
	if err != nil {
		return "E"
	}
	d := jpeg2000.NewDecoder()
	if err := d.Decode(cs); err != nil {
		return "D"
	}
	if bytes.Equal(d.GetPixelData(), px) {
		return "."
	}
	return "x"
}

func main() {
	for _, cb := range []int{4, 8, 16, 32, 64} {
		fmt.Printf("levels=0 cb=%d W=64 H=8 th=8 tw=1..64:\n", cb)
		for tw := 1; tw <= 64; tw++ {
			fmt.Print(rt(64, 8, tw, 8, 1, 8, 0, 1, cb, false, 1))
		}
		fmt.Println()
	}
	for _, cb := range []int{4, 8, 16} {
		fmt.Printf("levels=0 cb=%d W=8 H=64 tw=8 th=1..64:\n", cb)
		for th := 1; th <= 64; th++ {
			fmt.Print(rt(8, 64, 8, th, 1, 8, 0, 1, cb, false, 1))
		}
		fmt.Println()
	}
}
