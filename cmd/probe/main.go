package main

import (
	"fmt"

	"verif/internal/gen"
	"verif/internal/props"
)

func main() {
	cd := props.Codec(".201")
	info := props.FrameInfo(7, 18, 16, 13, 1, 0, 0)
	px := gen.PackN(gen.Content(gen.New(3), "noise", 7, 18, 1, 13, 0), 2)
	enc := props.NewPD(info)
	if err := cd.Encode(props.NewPD(info, px), enc, nil); err != nil {
		panic(err)
	}
	cs := enc.Frames[0]
	buf := make([]byte, len(cs)+32)
	copy(buf, cs)
	for i := len(cs); i < len(buf); i++ {
		buf[i] = 0xA5
	}
	in := buf[:len(cs)]
	keep := append([]byte(nil), buf...)
	dec := props.NewPD(info)
	fmt.Println(cd.Decode(props.NewPD(info, in), dec, nil))
	for i := range buf {
		if buf[i] != keep[i] {
			fmt.Printf("byte %d (len %d): %02x -> %02x\n", i, len(cs), keep[i], buf[i])
		}
	}
}
